//go:build verif

package util

import "github.com/fatedier/frp/verif"

// RandIDWithLen: the id has the requested length and is derived from
// crypto/rand (C12: "a new, unpredictable run id").
//
//verif:contract ~/pkg/util/util.RandIDWithLen
//verif:props C12
func verif_RandIDWithLen(idLen int) {
	verif.ResetEvents()
	id, err := RandIDWithLen(idLen)
	if err == nil && idLen > 0 {
		verif.Ensures(len(id) == idLen, "requested_length")
		verif.Ensures(verif.Called("crypto/rand.Read"), "from_crypto_rand")
	}
	if idLen <= 0 {
		verif.Ensures(id == "" && err == nil, "nonpositive_empty")
	}
}

//verif:contract ~/pkg/util/util.RandID
//verif:props C12
func verif_RandID() {
	id, err := RandID()
	verif.Ensures(err != nil || len(id) == 16, "sixteen_chars")
}
