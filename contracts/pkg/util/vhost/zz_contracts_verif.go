//go:build verif

package vhost

import (
	"strings"

	"github.com/fatedier/frp/verif"
)

//verif:guarded Routers mutex indexByDomain

// Monitor invariant of the route table. For every (domain, user) list: entries
// carry their own keys, domains are stored lower-case, and locations are
// strictly descending - hence unique, and (with the prefix/order facts about
// strings) the first entry that is a prefix of a path is the longest one.
//
//verif:invariant Routers mutex
func (r *Routers) verifInvEntries(d, u string, i int) bool {
	if r.indexByDomain == nil {
		return false
	}
	byUser, ok := r.indexByDomain[d]
	if !ok {
		return true
	}
	if byUser == nil || strings.ToLower(d) != d {
		return false
	}
	vrs, ok := byUser[u]
	if !ok || i < 0 || i >= len(vrs) {
		return true
	}
	a := vrs[i]
	return a != nil && a.domain == d && a.httpUser == u
}

//verif:invariant Routers mutex
func (r *Routers) verifInvSorted(d, u string, i, j int) bool {
	byUser, ok := r.indexByDomain[d]
	if !ok {
		return true
	}
	vrs, ok := byUser[u]
	if !ok || i < 0 || j <= i || j >= len(vrs) {
		return true
	}
	return strings.Compare(vrs[i].location, vrs[j].location) > 0
}

//verif:contract ~/pkg/util/vhost.NewRouters
//verif:props C06
func verif_NewRouters(d, u string, i, j int) {
	r := NewRouters()
	verif.Ensures(r != nil && r.verifInvEntries(d, u, i) && r.verifInvSorted(d, u, i, j), "establishes_invariant")
	verif.Ensures(!verif.Has(r.indexByDomain, d), "empty")
}

// Get: "within a host ... the longest location prefix - and never a route that
// does not match". The returned route belongs to the (lower-cased host, user)
// list, its location is a prefix of the path, and no route of that list with a
// longer location is a prefix of the path; not found means no route of the
// list matches.
//
//verif:contract (*~/pkg/util/vhost.Routers).Get
//verif:props C06
func verif_Routers_Get(r *Routers, host, path, httpUser string, k int) {
	d := strings.ToLower(host)
	byUser, ok1 := r.indexByDomain[d]
	var vrs []*Router
	ok2 := false
	if ok1 {
		vrs, ok2 = byUser[httpUser]
	}
	vr, exist := r.Get(host, path, httpUser)
	if exist {
		verif.Ensures(ok2 && vr != nil, "found_route_is_in_the_table")
		verif.Ensures(vr.domain == d && vr.httpUser == httpUser, "found_route_has_requested_host_and_user")
		verif.Ensures(strings.HasPrefix(path, vr.location), "found_route_matches_path")
		if ok2 && k >= 0 && k < len(vrs) && strings.HasPrefix(path, vrs[k].location) {
			verif.Ensures(len(vrs[k].location) <= len(vr.location), "no_longer_matching_location_exists")
		}
	} else if ok2 && k >= 0 && k < len(vrs) {
		verif.Ensures(!strings.HasPrefix(path, vrs[k].location), "not_found_means_nothing_matches")
	}
}

//verif:loop (*~/pkg/util/vhost.Routers).Get 1 inv=verifLoopGet args=vrs,path,rangeindex
func verifLoopGet(vrs []*Router, path string, idx int, m int) bool {
	return m < 0 || m > idx || m >= len(vrs) || !strings.HasPrefix(path, vrs[m].location)
}
