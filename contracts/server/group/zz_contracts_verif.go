//go:build verif

package group

import (
	"net"
	"strconv"

	"github.com/fatedier/frp/server/ports"
	"github.com/fatedier/frp/verif"
)

const (
	evAcquire = "ports.Manager).Acquire"
	evRelease = "ports.Manager).Release"
)

//verif:guarded TCPGroupCtl mu groups
//verif:guarded TCPGroup mu group groupKey addr port realPort acceptCh tcpLn lns

// Monitor invariant of the tcp group table: the map exists; every registered
// group is wired to this controller.
//
//verif:invariant TCPGroupCtl mu
func (tgc *TCPGroupCtl) verifInvGroups(name string) bool {
	g, ok := tgc.groups[name]
	return tgc.groups != nil && (!ok || (g != nil && g.ctl == tgc))
}

//verif:contract ~/server/group.NewTCPGroupCtl
//verif:props C13
func verif_NewTCPGroupCtl(pm *ports.Manager, name string) {
	tgc := NewTCPGroupCtl(pm)
	verif.Ensures(tgc != nil && tgc.verifInvGroups(name) && tgc.portManager == pm, "establishes_invariant")
}

// The controller looks the group up (creating and registering it when absent)
// and lets the group decide; the result is the group's.
//
//verif:contract (*~/server/group.TCPGroupCtl).Listen
//verif:props C09 C13
func verif_TCPGroupCtl_Listen(tgc *TCPGroupCtl, proxyName string, group string, groupKey string, addr string, port int) {
	verif.ResetEvents()
	l, realPort, err := tgc.Listen(proxyName, group, groupKey, addr, port)
	verif.Ensures(verif.CallCount("TCPGroup).Listen") == 1, "delegates_once")
	verif.Ensures(verif.CalledWith("TCPGroup).Listen", 2, group) && verif.CalledWith("TCPGroup).Listen", 3, groupKey) &&
		verif.CalledWith("TCPGroup).Listen", 4, addr) && verif.CalledWith("TCPGroup).Listen", 5, port), "passes_request_unchanged")
	verif.Ensures(realPort == verif.RetInt("TCPGroup).Listen", 1) && err == verif.RetErr("TCPGroup).Listen", 2), "returns_group_result")
	verif.Ensures(err != nil || l != nil, "success_has_listener")
}

// First member of a tcp group: the group listens on exactly the port it
// acquired and reports that port (C09); a failure after the acquisition gives
// the port back (C09/C10). Later members join only with the same group name,
// address, port and key (C13) and a refused join leaves the group unchanged.
//
//verif:contract (*~/server/group.TCPGroup).Listen
//verif:props C09 C10 C13
func verif_TCPGroup_Listen(tg *TCPGroup, proxyName string, group string, groupKey string, addr string, port int) {
	n0 := len(tg.lns)
	g0, k0, a0, p0, rp0 := tg.group, tg.groupKey, tg.addr, tg.port, tg.realPort
	verif.ResetEvents()
	ln, realPort, err := tg.Listen(proxyName, group, groupKey, addr, port)
	if n0 == 0 {
		acquired := verif.Called(evAcquire) && verif.RetErr(evAcquire, 1) == nil
		p := verif.RetInt(evAcquire, 0)
		verif.Ensures(verif.CallCount(evAcquire) <= 1, "first_acquires_at_most_once")
		if err == nil {
			verif.Ensures(acquired, "first_port_acquired")
			verif.Ensures(verif.CalledWith(evAcquire, 2, port), "first_asks_for_requested_port")
			verif.Ensures(verif.CalledWith("net.Listen", 1, net.JoinHostPort(addr, strconv.Itoa(p))), "first_listens_on_acquired_port")
			verif.Ensures(realPort == p && tg.realPort == p, "first_reports_acquired_port")
			verif.Ensures(!verif.Called(evRelease), "first_keeps_port")
			verif.Ensures(ln != nil && len(tg.lns) == 1, "first_is_member")
			verif.Ensures(tg.group == group && tg.groupKey == groupKey && tg.addr == addr && tg.port == port, "first_sets_params")
		} else if acquired {
			verif.Ensures(verif.CalledWith(evRelease, 1, p), "first_error_releases_port")
			verif.Ensures(len(tg.lns) == 0, "first_error_no_member")
		}
	} else {
		verif.Ensures(!verif.Called(evAcquire) && !verif.Called("net.Listen"), "join_acquires_nothing")
		if err == nil {
			verif.Ensures(g0 == group && a0 == addr && p0 == port && k0 == groupKey, "join_only_with_matching_params_and_key")
			verif.Ensures(realPort == rp0, "join_reports_group_port")
			verif.Ensures(len(tg.lns) == n0+1, "join_adds_one_member")
		} else {
			verif.Ensures(len(tg.lns) == n0, "refused_join_leaves_members")
		}
		verif.Ensures(tg.group == g0 && tg.groupKey == k0 && tg.addr == a0 && tg.port == p0 && tg.realPort == rp0, "join_leaves_params")
	}
}
