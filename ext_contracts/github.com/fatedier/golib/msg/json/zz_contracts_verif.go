//go:build verif

package json

import (
	"io"

	"github.com/fatedier/frp/verif"
)

// Contracts on the codec of the dependency golib (module cache, read-only):
// this file is laid over the package directory when the engine loads it; the
// functions verified are the ones the frp binaries link.
//
// C17 "for every byte sequence, decoding returns a registered message or an
// error without panicking, without allocating more than the declared bounded
// length and without reading past the frame; unknown type bytes, negative or
// oversized lengths ... are errors".

// readMsg: whatever the reader delivers, the function does not panic (the
// allocation size is checked non-negative: obligation nopanic.*.makeslice);
// the buffer it allocates is never longer than max(1, maxMsgLength); success
// means the type byte is registered and the frame length is within the bound.
//
//verif:contract (*github.com/fatedier/golib/msg/json.MsgCtl).readMsg
//verif:props C17
func verif_golib_readMsg(msgCtl *MsgCtl, c io.Reader) {
	maxLen := msgCtl.maxMsgLength
	verif.ResetEvents()
	typeByte, buffer, err := msgCtl.readMsg(c)
	verif.Ensures(int64(len(buffer)) <= 1 || int64(len(buffer)) <= maxLen, "allocation_within_declared_bound")
	if err == nil {
		verif.Ensures(verif.Has(msgCtl.typeMap, typeByte), "accepted_type_byte_is_registered")
		verif.Ensures(int64(len(buffer)) <= maxLen, "accepted_frame_within_declared_bound")
		// slices are values in the encoding and the callee fills the buffer, so
		// "the returned buffer is the one filled" is stated over its length
		verif.Ensures(verif.Called("io.ReadFull") && len(verif.NthArg[[]byte]("io.ReadFull", 0, 1)) == len(buffer), "body_read_into_the_returned_buffer_only")
	}
	verif.Ensures(msgCtl.maxMsgLength == maxLen, "bound_unchanged")
}

// unpack with no message to fill: an unregistered type byte is an error, not a
// panic; otherwise a new value of the registered type is handed to the JSON
// decoder and returned with its verdict.
//
// reflect.New(t).Interface() is a non-nil pointer (assumed: reflection is
// outside the engine), so the conversion to the empty interface cannot fail.
//
//verif:assume-typeassert (*github.com/fatedier/golib/msg/json.MsgCtl).unpack
//verif:contract (*github.com/fatedier/golib/msg/json.MsgCtl).unpack
//verif:props C17
func verif_golib_unpack(msgCtl *MsgCtl, typeByte byte, buffer []byte, msgIn Message) {
	known := verif.Has(msgCtl.typeMap, typeByte)
	verif.ResetEvents()
	_, err := msgCtl.unpack(typeByte, buffer, msgIn)
	if msgIn == nil && !known {
		verif.Ensures(err == ErrMsgType && !verif.Called("json.Unmarshal"), "unregistered_type_is_an_error")
	} else {
		verif.Ensures(verif.Called("json.Unmarshal") && err == verif.RetErr("json.Unmarshal", 0), "decoder_verdict_returned")
	}
}

// ReadMsg: frame first, then body; a frame error is returned without decoding.
//
//verif:contract (*github.com/fatedier/golib/msg/json.MsgCtl).ReadMsg
//verif:props C17
func verif_golib_ReadMsg(msgCtl *MsgCtl, c io.Reader) {
	verif.ResetEvents()
	_, err := msgCtl.ReadMsg(c)
	if verif.RetErr("MsgCtl).readMsg", 2) != nil {
		verif.Ensures(err != nil && !verif.Called("MsgCtl).UnPack"), "frame_error_is_returned_undecoded")
	}
}
