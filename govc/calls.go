package main

import (
	"fmt"
	"go/token"
	"go/types"
	"sort"
	"strings"

	"golang.org/x/tools/go/ssa"
)

const frpPrefix = "github.com/fatedier/frp"

func (x *Run) doCall(fr *Frame, st *State, cc *ssa.CallCommon, site ssa.Instruction) []Outcome {
	var args []Val
	if cc.IsInvoke() {
		recv := x.val(fr, st, cc.Value)
		for _, a := range cc.Args {
			args = append(args, x.val(fr, st, a))
		}
		return x.invoke(fr, st, recv, cc, args, site)
	}
	for _, a := range cc.Args {
		args = append(args, x.val(fr, st, a))
	}
	if b, ok := cc.Value.(*ssa.Builtin); ok {
		return x.builtin(fr, st, b, cc, args, site)
	}
	if sf := cc.StaticCallee(); sf != nil && strings.HasPrefix(sf.String(), "slices.SortFunc[") && len(args) == 2 && args[1].Clo != nil {
		return x.modelSortFunc(fr, st, cc, args, site)
	}
	fv := x.val(fr, st, cc.Value)
	return x.callValue(fr, st, fv, cc, args, site)
}

func single(st *State, ret Val) []Outcome { return []Outcome{{st: st, ret: ret}} }

// callValue calls a function value with evaluated args.
func (x *Run) callValue(fr *Frame, st *State, fv Val, cc *ssa.CallCommon, args []Val, site ssa.Instruction) []Outcome {
	if cc != nil && cc.IsInvoke() {
		return x.invoke(fr, st, fv, cc, args, site)
	}
	if cc != nil {
		if b, ok := cc.Value.(*ssa.Builtin); ok {
			return x.builtin(fr, st, b, cc, args, site)
		}
	}
	if fv.Clo == nil && strings.HasPrefix(fv.Origin, "extfn:") {
		x.mu.Lock()
		x.opaque["external:function value returned by "+strings.TrimPrefix(fv.Origin, "extfn:")] = true
		x.mu.Unlock()
		var rt *types.Tuple
		if cc != nil {
			rt = cc.Signature().Results()
		}
		x.havocSliceArgs(fr, st, site, "")
		r := x.extResults(st, rt)
		// named like a closure of the library function ("f$fn"), so that event
		// patterns for f itself do not match it
		st.events = append(st.events, Event{Name: "call:" + strings.TrimPrefix(fv.Origin, "extfn:") + "$fn", Args: args, Ret: r})
		return single(st, r)
	}
	if fv.Clo == nil && fv.Origin != "" {
		if sf := x.spec.fieldFns[fv.Origin]; sf != nil {
			st.events = append(st.events, Event{Name: "call:fieldfn:" + fv.Origin, Args: args})
			idx := len(st.events) - 1
			outs := x.runFunc(sf, args, nil, st, fr, ModeNormal)
			for i := range outs {
				if !outs[i].panic && idx < len(outs[i].st.events) {
					ev := append([]Event(nil), outs[i].st.events...)
					ev[idx].Ret = outs[i].ret
					outs[i].st.events = ev
				}
			}
			return outs
		}
	}
	if fv.Clo == nil || x.spec.dynCallOverrides(site) {
		if sf := x.spec.dynCallSpec(site); sf != nil {
			st.events = append(st.events, Event{Name: "call:dyncall:" + x.fnShort(sf), Args: args})
			return x.runFunc(sf, args, nil, st, fr, ModeNormal)
		}
	}
	if fv.Clo == nil {
		// unknown function value
		var sig *types.Signature
		if cc != nil {
			sig = cc.Signature()
		}
		return x.dynamicUnknown(fr, st, "dynamic call of function value", sig, site)
	}
	return x.callFunc(fr, st, fv.Clo.Fn, args, fv.Clo.Bindings, site)
}

func (x *Run) dynamicUnknown(fr *Frame, st *State, what string, sig *types.Signature, site ssa.Instruction) []Outcome {
	x.mu.Lock()
	x.opaque["havoc-all:"+what+" in "+x.fnShort(fr.fn)] = true
	x.mu.Unlock()
	x.havocAll(st)
	x.havocSliceArgs(fr, st, site, "")
	st.events = append(st.events, Event{Name: "unknown-call"})
	var ret Val
	if sig != nil {
		ret = x.freshResults(st, sig.Results())
	}
	return single(st, ret)
}

// extResults: results of a library call. A-ERRNIL: when the last result is
// an error and it is nil, pointer / interface results are non-nil (the Go
// library convention for constructors such as net.Listen, url.Parse, ...).
func (x *Run) extResults(st *State, rt *types.Tuple) Val {
	r := x.freshResults(st, rt)
	if rt == nil || rt.Len() < 2 || r.S != "Tuple" {
		return r
	}
	last := r.Tup[rt.Len()-1]
	if last.S != SIface || !types.Identical(rt.At(rt.Len()-1).Type(), types.Universe.Lookup("error").Type()) {
		return r
	}
	for i := 0; i < rt.Len()-1; i++ {
		v := r.Tup[i]
		switch types.Unalias(rt.At(i).Type()).Underlying().(type) {
		case *types.Pointer:
			st.assume(implies(eq(last.T, "inil"), fmt.Sprintf("(> %s 0)", v.T)))
		case *types.Interface:
			st.assume(implies(eq(last.T, "inil"), not(eq(v.T, "inil"))))
		}
	}
	return r
}

func (x *Run) freshResults(st *State, rt *types.Tuple) Val {
	if rt == nil || rt.Len() == 0 {
		return Val{T: "unit", S: SUnit}
	}
	if rt.Len() == 1 {
		return x.freshVal(st, "ret", rt.At(0).Type())
	}
	return x.freshVal(st, "ret", rt)
}

func pkgPathOf(fn *ssa.Function) string {
	if fn.Pkg != nil {
		return fn.Pkg.Pkg.Path()
	}
	if o := fn.Origin(); o != nil && o.Pkg != nil {
		return o.Pkg.Pkg.Path()
	}
	if fn.Object() != nil && fn.Object().Pkg() != nil {
		return fn.Object().Pkg().Path()
	}
	if p := fn.Parent(); p != nil {
		return pkgPathOf(p)
	}
	return ""
}

func (x *Run) callFunc(fr *Frame, st *State, fn *ssa.Function, args []Val, bindings []Val, site ssa.Instruction) []Outcome {
	name := fn.String()
	if fn.Name() == "init" && fn.Synthetic != "" {
		return single(st, Val{T: "unit", S: SUnit})
	}
	// --- verification intrinsics ---
	if x.isVerifPkg(fn) {
		if outs, ok := x.intrinsic(fr, st, fn, args, site); ok {
			return outs
		}
	}
	// --- explicit self call of a target that Go code cannot name (closures) ---
	if x.isVerifPkg(fn) && (strings.HasPrefix(fn.Name(), "CallTarget")) && fr.con != nil && fr.con.Target != nil {
		var real []Val
		if len(args) == 1 && args[0].Tup != nil {
			for _, e := range args[0].Tup {
				if e.Inner != nil {
					real = append(real, *e.Inner)
				} else if e.S != "" {
					real = append(real, e)
				}
			}
		}
		tgt := fr.con.Target
		bindings := x.targetBindings(x.contractFrame(fr), st)
		if fr.mode == ModeContractVerify {
			f := &Frame{fn: tgt, env: map[ssa.Value]Val{}, names: map[string]Val{}, parent: fr, mode: ModeNormal, cut: map[*ssa.BasicBlock]bool{}, unroll: map[*ssa.BasicBlock]int{}, depth: fr.depth + 1, selfRun: true}
			st.trace = append(st.trace, "self")
			return x.runFrame(f, real, bindings, st)
		}
		return x.useSelfCall(fr, st, tgt, real, site)
	}
	// --- self call inside a contract function ---
	if fr.con != nil && fr.con.Target == fn && (fr.mode == ModeContractVerify || fr.mode == ModeContractUse) {
		if fr.mode == ModeContractVerify {
			f := &Frame{fn: fn, env: map[ssa.Value]Val{}, names: map[string]Val{}, parent: fr, mode: ModeNormal, cut: map[*ssa.BasicBlock]bool{}, unroll: map[*ssa.BasicBlock]int{}, depth: fr.depth + 1, selfRun: true}
			st.trace = append(st.trace, "self")
			return x.runFrame(f, args, bindings, st)
		}
		return x.useSelfCall(fr, st, fn, args, site)
	}
	if len(st.held) > 0 && strings.HasPrefix(pkgPathOf(fn), frpPrefix) {
		x.noteCallUnderLock(fr, st, fn, site)
	}
	// --- "hold the lock before calling this function" ---
	if x.spec.lockHeld != nil && !fr.inPure() && !x.isVerifPkg(fn) {
		if key := x.heldLockKey(fn, args); key != "" && site != nil {
			x.obligeStatic(st, "lock."+x.fnShort(fr.fn)+".calls-"+fn.Name()+"-with-lock-held", "lock", st.held[key] != 0, site.Pos(), "callee requires the receiver's mutex to be held")
		}
	}
	// --- trusted replacement ---
	if sf := x.spec.stubs[name]; sf != nil && !(fr.con != nil && fr.con.Target == fn) {
		x.mu.Lock()
		x.opaque["stub:"+x.fnShort(fn)] = true
		x.mu.Unlock()
		st.events = append(st.events, Event{Name: "call:" + fn.String(), Args: args})
		idx := len(st.events) - 1
		outs := x.runFunc(sf, args, nil, st, fr, ModeNormal)
		for i := range outs {
			if !outs[i].panic && idx < len(outs[i].st.events) {
				ev := append([]Event(nil), outs[i].st.events...)
				ev[idx].Ret = outs[i].ret
				outs[i].st.events = ev
			}
		}
		return outs
	}
	// --- contract on callee ---
	if con := x.spec.contractFor(name); con != nil && !x.inContractOf(fr, con) {
		outs := x.useContract(fr, st, con, args, site)
		x.havocSliceArgs(fr, st, site, fn.String())
		return outs
	}
	// --- spec functions ---
	if x.spec.pure[name] && (fr.inSpec() || fr.inPure()) && fn.Signature.Results().Len() == 1 && len(fn.Blocks) > 0 && !x.onStack(fr, fn) {
		rt := fn.Signature.Results().At(0).Type()
		if x.d.sortOf(rt) != "Tuple" {
			t := x.evalPure(fr, st, fn, args, fr.bound)
			return single(st, Val{T: t, S: x.d.sortOf(rt), Ty: rt})
		}
	}
	if x.spec.isUninterp(name) {
		return single(st, x.ufApply(st, "spec."+x.fnShort(fn), args, fn.Signature.Results()))
	}
	// --- models ---
	if outs, ok := x.model(fr, st, fn, args, site); ok {
		return outs
	}
	pp := pkgPathOf(fn)
	if x.spec.detFns[name] && !(fr.con != nil && fr.con.Target == fn) {
		ret := x.ufApply(st, "ext."+x.fnShort(fn), args, fn.Signature.Results())
		st.events = append(st.events, Event{Name: "call:" + fn.String(), Args: args, Ret: ret})
		return single(st, ret)
	}
	internal := strings.HasPrefix(pp, frpPrefix) || x.spec.inlineExt(fn, pp)
	if fr.inPure() && !internal {
		// deterministic abstraction inside specs
		return single(st, x.ufApply(st, "ext."+x.fnShort(fn), args, fn.Signature.Results()))
	}
	if internal && len(fn.Blocks) > 0 {
		if fr.depth < x.maxDepth && !x.onStack(fr, fn) {
			x.mu.Lock()
			x.inlined[x.fnShort(fn)] = true
			x.mu.Unlock()
			mode := ModeNormal
			if fr.inPure() {
				mode = ModePure
			} else {
				// the callee's stores into a slice it was handed re-bind the callee's
				// own names (A-SLICE): the caller's names get unknown contents
				if x.mayWriteSliceParam(fn, map[*ssa.Function]bool{}) {
					x.havocSliceArgs(fr, st, site, fn.String())
				}
				st.events = append(st.events, Event{Name: "call:" + fn.String(), Args: args})
				idx := len(st.events) - 1
				outs := x.runFunc(fn, args, bindings, st, fr, mode)
				for i := range outs {
					if !outs[i].panic && idx < len(outs[i].st.events) {
						ev := append([]Event(nil), outs[i].st.events...)
						ev[idx].Ret = outs[i].ret
						outs[i].st.events = ev
					}
				}
				return outs
			}
			return x.runFunc(fn, args, bindings, st, fr, mode)
		}
		// cannot inline: conservative havoc by static mod-set
		ms := x.modSet(fn)
		x.mu.Lock()
		x.opaque["havoc-modset:"+x.fnShort(fn)] = true
		x.mu.Unlock()
		x.applyHavoc(st, ms)
		x.havocSliceArgs(fr, st, site, fn.String())
		return single(st, x.freshResults(st, fn.Signature.Results()))
	}
	// --- deterministic library functions: uninterpreted function of the arguments ---
	if x.spec.detExt(fn) {
		ret := x.ufApply(st, "ext."+x.fnShort(fn), args, fn.Signature.Results())
		if fn.String() == "(*encoding/base64.Encoding).EncodeToString" && len(args) == 2 {
			// library axiom, instantiated where the encoding is produced:
			// DecodeString(enc, EncodeToString(enc, b)) == (b, nil)
			errT := types.Universe.Lookup("error").Type()
			rt := types.NewTuple(types.NewVar(0, nil, "", args[1].Ty), types.NewVar(0, nil, "", errT))
			dec := x.ufApply(st, "ext."+strings.Replace(x.fnShort(fn), "EncodeToString", "DecodeString", 1), []Val{args[0], ret}, rt)
			if len(dec.Tup) == 2 && dec.Tup[0].S == args[1].S {
				st.assume(eq(dec.Tup[0].T, args[1].T))
				st.assume(eq(dec.Tup[1].T, "inil"))
				x.mu.Lock()
				x.trusted["library-axiom:base64 DecodeString(EncodeToString(b)) == b for the same encoding"] = true
				x.mu.Unlock()
			}
		}
		st.events = append(st.events, Event{Name: "call:" + fn.String(), Args: args, Ret: ret})
		return single(st, ret)
	}
	// --- opaque external ---
	return x.opaqueExternal(fr, st, fn, args, site)
}

func (fr *Frame) inPure() bool {
	for f := fr; f != nil; f = f.parent {
		if f.mode == ModePure || f.mode == ModeContractUse {
			return true
		}
		if f.selfRun {
			return false
		}
	}
	return false
}

// inSpec: executing contract-function code itself (not the code under contract).
func (fr *Frame) inSpec() bool {
	for f := fr; f != nil; f = f.parent {
		if f.selfRun {
			return false
		}
		if f.mode == ModeContractVerify {
			return true
		}
	}
	return false
}

func (x *Run) inContractOf(fr *Frame, con *Contract) bool {
	// A contract function may call its own target (handled above); nested
	// uses of the same contract while verifying that very contract's target
	// body (recursion) fall back to the contract.
	return false
}

func (x *Run) onStack(fr *Frame, fn *ssa.Function) bool {
	for f := fr; f != nil; f = f.parent {
		if f.fn == fn {
			return true
		}
	}
	return false
}

func (x *Run) applyHavoc(st *State, ms *ModSet) {
	if ms.Top {
		x.havocAllExcept(st, ms.Preserves)
		// locations written explicitly are not protected by the "preserves"
		// list of some other callee
		for _, a := range sortedKeys(ms.Arrs) {
			for _, n := range x.expandMod(a) {
				x.havocArr(st, n)
			}
		}
		x.flushZeroAxioms(st)
		return
	}
	for _, a := range sortedKeys(ms.Arrs) {
		for _, n := range x.expandMod(a) {
			x.havocArr(st, n)
		}
	}
	x.flushZeroAxioms(st)
}

// expandMod: a modifies entry ending in "." stands for every heap array with
// that prefix (all fields of a struct type).
func (x *Run) expandMod(a string) []string {
	if !strings.HasSuffix(a, ".") {
		return []string{a}
	}
	var out []string
	x.mu.Lock()
	for n := range x.arrSorts {
		if strings.HasPrefix(n, a) {
			out = append(out, n)
		}
	}
	x.mu.Unlock()
	sort.Strings(out)
	return out
}

// flushZeroAxioms re-establishes "absent keys hold zero" for map value arrays
// that were havocked (with whatever the domain array currently is).
func (x *Run) flushZeroAxioms(st *State) {
	for _, name := range st.pendingZero {
		dom := "Md." + name[3:]
		x.mu.Lock()
		vs := x.arrSorts[name]
		zero := x.mapZero[name]
		x.mu.Unlock()
		if zero == "" {
			continue
		}
		ks := mapKeySortOfArr(vs)
		st.assume(fmt.Sprintf("(forall ((m Int) (k %s)) (! (=> (not (select (select %s m) k)) (= (select (select %s m) k) %s)) :pattern ((select (select %s m) k))))", ks, x.arr(st, dom), x.arr(st, name), zero, x.arr(st, name)))
		st.assume(fmt.Sprintf("(forall ((k %s)) (! (not (select (select %s 0) k)) :pattern ((select (select %s 0) k))))", ks, x.arr(st, dom), x.arr(st, dom)))
	}
	st.pendingZero = nil
}

// ufApply models a call as an uninterpreted function of its arguments.
func (x *Run) ufApply(st *State, name string, args []Val, rt *types.Tuple) Val {
	var sorts []Sort
	var terms []string
	for _, a := range args {
		if a.S == "Tuple" || a.S == "" {
			continue
		}
		sorts = append(sorts, a.S)
		terms = append(terms, a.T)
	}
	mk := func(i int, ty types.Type) Val {
		s := x.d.sortOf(ty)
		f := x.d.fun(fmt.Sprintf("%s.r%d", name, i), sorts, s)
		var t string
		if len(terms) == 0 {
			t = f
		} else {
			t = app(f, terms...)
		}
		v := Val{T: t, S: s, Ty: ty}
		x.assumeType(st, v)
		return v
	}
	if rt == nil || rt.Len() == 0 {
		return Val{T: "unit", S: SUnit}
	}
	if rt.Len() == 1 {
		return mk(0, rt.At(0).Type())
	}
	r := Val{S: "Tuple", Ty: rt}
	for i := 0; i < rt.Len(); i++ {
		r.Tup = append(r.Tup, mk(i, rt.At(i).Type()))
	}
	return r
}

// opaqueExternal: fresh results, no effect on frp state (A-EXT), except
// out-parameters: pointees of pointer arguments to frp objects / local cells
// are havocked.
func (x *Run) opaqueExternal(fr *Frame, st *State, fn *ssa.Function, args []Val, site ssa.Instruction) []Outcome {
	x.mu.Lock()
	x.opaque["external:"+x.fnShort(fn)] = true
	x.mu.Unlock()
	if !x.spec.pureExt(fn) {
		for _, a := range args {
			x.havocPointee(st, a)
		}
		x.havocSliceArgs(fr, st, site, fn.String())
	}
	ret := x.extResults(st, fn.Signature.Results())
	// function values handed out by library code (context.CancelFunc, ...) are
	// library code themselves
	markExt := func(v *Val) {
		if v.Ty != nil {
			if _, ok := types.Unalias(v.Ty).Underlying().(*types.Signature); ok {
				v.Origin = "extfn:" + x.fnShort(fn)
			}
		}
	}
	markExt(&ret)
	for i := range ret.Tup {
		markExt(&ret.Tup[i])
	}
	st.events = append(st.events, Event{Name: "call:" + fn.String(), Args: args, Ret: ret})
	return single(st, ret)
}

// havocSliceArgs: a callee whose body is not executed may write through the
// byte (basic-element) slices it is handed. Slices are values in this
// encoding (A-SLICE), so the SSA values naming the slice - the argument and
// the slices / array it was cut from - are re-bound to unknown contents of
// the same length. Callees documented not to modify the buffer
// (io.Writer-style Write* methods) and pure library functions are exempt.
func (x *Run) havocSliceArgs(fr *Frame, st *State, site ssa.Instruction, callee string) {
	ci, ok := site.(ssa.CallInstruction)
	if !ok || fr == nil || fr.inPure() || fr.inSpec() {
		return
	}
	if x.spec.keepsArgs[callee] {
		x.mu.Lock()
		x.trusted["keeps-args:"+callee+" does not write through its slice arguments"] = true
		x.mu.Unlock()
		return
	}
	short := callee
	if i := strings.LastIndexAny(short, ".)"); i >= 0 {
		short = short[i+1:]
	}
	if strings.HasPrefix(short, "Write") || strings.HasPrefix(short, "write") {
		return
	}
	for _, a := range ci.Common().Args {
		x.havocSliceRoot(fr, st, a)
	}
}

func (x *Run) havocSliceRoot(fr *Frame, st *State, v ssa.Value) {
	for depth := 0; depth < 8; depth++ {
		switch t := types.Unalias(v.Type()).Underlying().(type) {
		case *types.Slice:
			if _, basic := types.Unalias(t.Elem()).Underlying().(*types.Basic); !basic {
				return
			}
			if cur, ok := fr.env[v]; ok && cur.T != "" && cur.S == x.d.sortOf(v.Type()) {
				fresh := x.freshVal(st, "buf", v.Type())
				nv := Val{T: x.mkSlice(cur.S, x.sliceArr(fresh), x.sliceLen(cur)), S: cur.S, Ty: cur.Ty}
				fr.env[v] = nv
				for k, named := range fr.names {
					if named.T == cur.T && named.S == cur.S && !strings.HasSuffix(k, "@entry") {
						fr.names[k] = nv
					}
				}
			}
			if sl, ok := v.(*ssa.Slice); ok {
				v = sl.X
				continue
			}
			return
		case *types.Pointer:
			if arr, ok := types.Unalias(t.Elem()).Underlying().(*types.Array); ok {
				if _, basic := types.Unalias(arr.Elem()).Underlying().(*types.Basic); basic {
					if cur, ok := fr.env[v]; ok {
						x.havocPointee(st, cur)
					}
				}
			}
			return
		default:
			return
		}
	}
}

func (x *Run) havocPointee(st *State, a Val) {
	if a.Inner != nil {
		x.havocPointee(st, *a.Inner)
		return
	}
	if a.Addr == nil {
		if a.Tup != nil && a.S != "Tuple" {
			for _, e := range a.Tup { // varargs slice elements
				if e.S != "" {
					x.havocPointee(st, e)
				}
			}
		}
		return
	}
	switch a.Addr.Kind {
	case ACell:
		if len(a.Addr.Sel) == 0 {
			st.cells[a.Addr.Cell] = x.freshVal(st, "out_"+a.Addr.Cell.name, a.Addr.Cell.ty)
		}
	case AObj:
		if strings.HasPrefix(typeKey(a.Addr.Ty), frpPrefix) || a.Addr.Fresh {
			x.storeStruct(st, a.Addr.Ref, a.Addr.Ty, x.freshVal(st, "out", a.Addr.Ty))
		}
	case AField:
		stt, _ := structOf(a.Addr.Ty)
		if len(a.Addr.Sel) == 0 {
			x.storeField(st, a.Addr.Ref, a.Addr.Ty, a.Addr.Field, x.freshVal(st, "out", stt.Field(a.Addr.Field).Type()))
		} else {
			cur := x.load(st, a.Addr, nil)
			x.storeAddr(st, a.Addr, x.freshVal(st, "out", cur.Ty), nil)
		}
	}
}

// invoke: interface method call.
func (x *Run) invoke(fr *Frame, st *State, recv Val, cc *ssa.CallCommon, args []Val, site ssa.Instruction) []Outcome {
	// A-NONNIL: interface receivers are not nil (a call through a nil interface
	// panics; that panic is not among the obligations generated), so after the
	// call the path knows it
	var pre []Outcome
	if recv.S == SIface && recv.NilIface && !fr.inPure() {
		// a value a specification declared possibly nil (verif.Nullable: the
		// connection a sniffing hook hands back together with an error): calling
		// a method through it is an obligation
		x.mayPanic(fr, st, not(eq(recv.T, "inil")), "nilcall", site, &pre)
	}
	if len(pre) > 0 {
		outs := x.invoke1(fr, st, recv, cc, args, site)
		return append(pre, outs...)
	}
	return x.invoke1(fr, st, recv, cc, args, site)
}

func (x *Run) invoke1(fr *Frame, st *State, recv Val, cc *ssa.CallCommon, args []Val, site ssa.Instruction) []Outcome {
	m := cc.Method
	full := m.FullName()
	all := append([]Val{recv}, args...)
	if recv.S == SIface && recv.T != "inil" && !fr.inPure() {
		st.assume(not(eq(recv.T, "inil")))
	}
	if con := x.spec.contractFor(full); con != nil && con.InlineKnown && recv.Inner != nil && recv.Inner.Ty != nil && !(fr.con == con) {
		// receiver's dynamic type known: run the implementation (each listed
		// implementation is verified against the contract separately)
		if fn := x.prog.LookupMethod(recv.Inner.Ty, m.Pkg(), m.Name()); fn != nil {
			return x.callFunc(fr, st, fn, append([]Val{*recv.Inner}, args...), nil, site)
		}
	}
	if con := x.spec.contractFor(full); con != nil {
		if fr.con == con && fr.mode == ModeContractUse {
			return x.useSelfCall(fr, st, nil, all, site)
		}
		if !(fr.con == con && fr.mode == ModeContractVerify) {
			outs := x.useContract(fr, st, con, all, site)
			x.havocSliceArgs(fr, st, site, full)
			return outs
		}
	}
	if x.spec.getters[full] {
		// effect-free attribute of the receiver (assumed constant for an object)
		return single(st, x.ufApply(st, "getter."+sanitize(full), []Val{recv}, cc.Signature().Results()))
	}
	// dynamic type known on this path
	if recv.Inner != nil && recv.Inner.Ty != nil {
		if fn := x.prog.LookupMethod(recv.Inner.Ty, m.Pkg(), m.Name()); fn != nil {
			a2 := append([]Val{*recv.Inner}, args...)
			if fr.con != nil && fr.mode == ModeContractVerify && x.spec.contractFor(full) == fr.con {
				f := &Frame{fn: fn, env: map[ssa.Value]Val{}, names: map[string]Val{}, parent: fr, mode: ModeNormal, cut: map[*ssa.BasicBlock]bool{}, unroll: map[*ssa.BasicBlock]int{}, depth: fr.depth + 1, selfRun: true}
				st.trace = append(st.trace, "self:"+x.fnShort(fn))
				return x.runFrame(f, a2, nil, st)
			}
			return x.callFunc(fr, st, fn, a2, nil, site)
		}
	}
	if outs, ok := x.modelInvoke(fr, st, recv, m, args, site); ok {
		return outs
	}
	if fr.inPure() {
		return single(st, x.ufApply(st, "inv."+sanitize(full), all, cc.Signature().Results()))
	}
	declaredInFrp := m.Pkg() != nil && strings.HasPrefix(m.Pkg().Path(), frpPrefix)
	if iface, ok := types.Unalias(cc.Value.Type()).(*types.Named); ok && iface.Obj().Pkg() != nil {
		declaredInFrp = strings.HasPrefix(iface.Obj().Pkg().Path(), frpPrefix)
		if x.spec.effectFree[iface.Obj().Pkg().Path()+"."+iface.Obj().Name()] {
			declaredInFrp = false
		}
	}
	if declaredInFrp {
		return x.dynamicUnknown(fr, st, "invoke "+full, cc.Signature(), site)
	}
	x.mu.Lock()
	x.opaque["external-iface:"+full] = true
	x.mu.Unlock()
	for _, a := range args {
		x.havocPointee(st, a)
	}
	x.havocSliceArgs(fr, st, site, full)
	iret := x.extResults(st, cc.Signature().Results())
	st.events = append(st.events, Event{Name: "invoke:" + full, Args: all, Ret: iret})
	return single(st, iret)
}

// ---------- builtins ----------

func (x *Run) builtin(fr *Frame, st *State, b *ssa.Builtin, cc *ssa.CallCommon, args []Val, site ssa.Instruction) []Outcome {
	var outs []Outcome
	ret := func(v Val) []Outcome { return append(outs, Outcome{st: st, ret: v}) }
	intT := types.Typ[types.Int]
	switch b.Name() {
	case "len":
		a := args[0]
		switch types.Unalias(cc.Args[0].Type()).Underlying().(type) {
		case *types.Basic:
			return ret(Val{T: app("strlen", a.T), S: SInt, Ty: intT})
		case *types.Slice:
			x.checkValGuard(fr, st, a, false, site)
			return ret(Val{T: x.sliceLen(a), S: SInt, Ty: intT})
		case *types.Map:
			if a.Ty == nil || mapTypeOf(a.Ty) == nil {
				a.Ty = cc.Args[0].Type()
			}
			x.checkValGuard(fr, st, a, false, site)
			return ret(Val{T: x.mapLen(st, a), S: SInt, Ty: intT})
		case *types.Chan:
			r := x.freshVal(st, "chlen", intT)
			st.assume(fmt.Sprintf("(and (>= %s 0) (<= %s %s))", r.T, r.T, sel(x.arr(st, x.chCapArr()), a.T)))
			return ret(r)
		case *types.Array:
			return ret(Val{T: fmt.Sprint(types.Unalias(cc.Args[0].Type()).Underlying().(*types.Array).Len()), S: SInt, Ty: intT})
		case *types.Pointer:
			if arr, ok := types.Unalias(cc.Args[0].Type()).Underlying().(*types.Pointer).Elem().Underlying().(*types.Array); ok {
				return ret(Val{T: fmt.Sprint(arr.Len()), S: SInt, Ty: intT})
			}
		}
		return ret(x.freshVal(st, "len", intT))
	case "cap":
		a := args[0]
		switch types.Unalias(cc.Args[0].Type()).Underlying().(type) {
		case *types.Chan:
			return ret(Val{T: sel(x.arr(st, x.chCapArr()), a.T), S: SInt, Ty: intT})
		case *types.Slice:
			r := x.freshVal(st, "cap", intT)
			st.assume(fmt.Sprintf("(>= %s %s)", r.T, x.sliceLen(a)))
			return ret(r)
		}
		return ret(x.freshVal(st, "cap", intT))
	case "append":
		s := args[0]
		t := args[1]
		rs := x.d.sortOf(cc.Args[0].Type())
		if s.S != rs {
			s = x.zeroVal(cc.Args[0].Type())
		}
		if t.S == SStr { // append([]byte, string...)
			r := x.freshVal(st, "appstr", cc.Args[0].Type())
			st.assume(eq(x.sliceLen(r), fmt.Sprintf("(+ %s (strlen %s))", x.sliceLen(s), t.T)))
			return ret(r)
		}
		es := x.d.slices[rs]
		// t is a slice: the common case is a varargs literal of known length
		if n, ok := litInt(x.sliceLenSimple(t)); ok && n <= 8 {
			arr := x.sliceArr(s)
			ln := x.sliceLen(s)
			for i := 0; i < n; i++ {
				var ev string
				if t.Tup != nil && i < len(t.Tup) && t.Tup[i].S != "" {
					ev = t.Tup[i].T
				} else {
					ev = sel(x.sliceArr(t), fmt.Sprint(i))
				}
				arr = store(arr, fmt.Sprintf("(+ %s %d)", ln, i), ev)
			}
			r := Val{T: x.mkSlice(rs, arr, fmt.Sprintf("(+ %s %d)", ln, n)), S: rs, Ty: cc.Args[0].Type()}
			return ret(x.bindTerm(st, r))
		}
		// general: result r with len = len(s)+len(t), prefix preserved, suffix from t
		r := x.freshVal(st, "append", cc.Args[0].Type())
		st.assume(eq(x.sliceLen(r), fmt.Sprintf("(+ %s %s)", x.sliceLen(s), x.sliceLen(t))))
		st.assume(fmt.Sprintf("(forall ((i Int)) (! (=> (and (<= 0 i) (< i %s)) (= (select %s i) (select %s i))) :pattern ((select %s i))))", x.sliceLen(s), x.sliceArr(r), x.sliceArr(s), x.sliceArr(r)))
		st.assume(fmt.Sprintf("(forall ((i Int)) (! (=> (and (<= 0 i) (< i %s)) (= (select %s (+ %s i)) (select %s i))) :pattern ((select %s i))))", x.sliceLen(t), x.sliceArr(r), x.sliceLen(s), x.sliceArr(t), x.sliceArr(t)))
		// the same fact, triggered from the result side (reads of the appended slice)
		st.assume(fmt.Sprintf("(forall ((j Int)) (! (=> (and (<= %s j) (< j (+ %s %s))) (= (select %s j) (select %s (- j %s)))) :pattern ((select %s j))))", x.sliceLen(s), x.sliceLen(s), x.sliceLen(t), x.sliceArr(r), x.sliceArr(t), x.sliceLen(s), x.sliceArr(r)))
		_ = es
		return ret(r)
	case "copy":
		r := x.freshVal(st, "copied", intT)
		st.assume(fmt.Sprintf("(>= %s 0)", r.T))
		return ret(r)
	case "delete":
		m := args[0]
		if m.Ty == nil || mapTypeOf(m.Ty) == nil {
			m.Ty = cc.Args[0].Type()
		}
		k := x.coerce(st, args[1], mapTypeOf(m.Ty).Key())
		x.checkValGuard(fr, st, m, true, site)
		x.mapDelete(st, m, k.T)
		if m.Origin != "" && !fr.inPure() {
			st.events = append(st.events, Event{Name: "mapdel:" + m.Origin, Args: []Val{m, k}})
		}
		return ret(Val{T: "unit", S: SUnit})
	case "close":
		ch := args[0]
		cca := x.chClosedFor(ch, cc.Args[0].Type())
		closed := sel(x.arr(st, cca), ch.T)
		x.mayPanic(fr, st, and(not(closed), not(eq(ch.T, "0"))), "close-of-closed", site, &outs)
		x.setArr(st, cca, store(x.arr(st, cca), ch.T, "true"))
		if !isNegLit(ch.T) {
			st.dirty[cca] = true
		}
		cname := "close"
		if ch.Origin != "" {
			cname = "close:" + ch.Origin
		}
		st.events = append(st.events, Event{Name: cname, Args: []Val{ch}})
		return ret(Val{T: "unit", S: SUnit})
	case "recover":
		if st.ghost["panicking"] == "1" {
			st.ghost["panicking"] = ""
			pv := st.cells[panicCell]
			st.trace = append(st.trace, "recover")
			if pv.S != SIface {
				pv = Val{T: "(ibox 1 1)", S: SIface}
			}
			return ret(pv)
		}
		return ret(Val{T: "inil", S: SIface})
	case "min", "max":
		cur := args[0]
		for _, a := range args[1:] {
			op := "<="
			if b.Name() == "max" {
				op = ">="
			}
			cur = Val{T: ite(fmt.Sprintf("(%s %s %s)", op, cur.T, a.T), cur.T, a.T), S: cur.S, Ty: cur.Ty}
		}
		return ret(cur)
	case "print", "println":
		return ret(Val{T: "unit", S: SUnit})
	case "ssa:wrapnilchk":
		return ret(args[0])
	}
	x.unsupported("builtin "+b.Name(), site.Pos())
	return ret(x.freshResults(st, cc.Signature().Results()))
}

func (x *Run) sliceLenSimple(v Val) string {
	// recognise (mk_S arr N)
	t := v.T
	if strings.HasPrefix(t, "(mk_Slice") && strings.HasSuffix(t, ")") {
		i := strings.LastIndex(t, " ")
		return t[i+1 : len(t)-1]
	}
	return ""
}

func litInt(s string) (int, bool) {
	var n int
	if s == "" {
		return 0, false
	}
	if _, err := fmt.Sscanf(s, "%d", &n); err == nil && fmt.Sprint(n) == s {
		return n, true
	}
	return 0, false
}

// bindTerm names a large term with a fresh constant.
func (x *Run) bindTerm(st *State, v Val) Val {
	if len(v.T) < 160 || x.pureDepth > 0 {
		return v
	}
	c := x.d.fresh("t", v.S)
	st.assume(eq(c, v.T))
	v.T = c
	return v
}

var _ = token.NoPos

// modelSortFunc: slices.SortFunc(s, cmp) sorts in place. Library contract
// (trusted): afterwards the slice is a permutation of its old contents, sorted
// with respect to cmp. Slices are values in this model, so the SSA value naming
// the slice is re-bound to the sorted slice for the rest of the path.
func (x *Run) modelSortFunc(fr *Frame, st *State, cc *ssa.CallCommon, args []Val, site ssa.Instruction) []Outcome {
	s := args[0]
	es := x.d.slices[s.S]
	r := x.freshVal(st, "sorted", cc.Args[0].Type())
	n := x.sliceLen(s)
	st.assume(eq(x.sliceLen(r), n))
	k := x.d.fresh("k", SInt) // unique suffix
	pi := x.d.fun("perm."+k, []Sort{SInt}, SInt)
	ip := x.d.fun("iperm."+k, []Sort{SInt}, SInt)
	in := func(v string) string { return fmt.Sprintf("(and (<= 0 %s) (< %s %s))", v, v, n) }
	st.assume(fmt.Sprintf("(forall ((i Int)) (! (=> %s (and %s (= (%s (%s i)) i) (= (select %s i) (select %s (%s i))))) :pattern ((select %s i))))", in("i"), in(app(pi, "i")), ip, pi, x.sliceArr(r), x.sliceArr(s), pi, x.sliceArr(r)))
	st.assume(fmt.Sprintf("(forall ((j Int)) (! (=> %s (and %s (= (%s (%s j)) j))) :pattern ((%s j))))", in("j"), in(app(ip, "j")), pi, ip, ip))
	st.assume(fmt.Sprintf("(forall ((i Int) (j Int)) (! (=> (and %s %s (= (%s i) (%s j))) (= i j)) :pattern ((%s i) (%s j))))", in("i"), in("j"), pi, pi, pi, pi))
	// sortedness w.r.t. the real comparator closure
	bi := x.d.fresh("bi", SInt)
	bj := x.d.fresh("bj", SInt)
	et := types.Unalias(cc.Args[0].Type()).Underlying().(*types.Slice).Elem()
	ai := Val{T: sel(x.sliceArr(r), bi), S: es, Ty: et}
	aj := Val{T: sel(x.sliceArr(r), bj), S: es, Ty: et}
	f := &Frame{fn: args[1].Clo.Fn, env: map[ssa.Value]Val{}, names: map[string]Val{}, parent: fr, mode: ModePure, cut: map[*ssa.BasicBlock]bool{}, unroll: map[*ssa.BasicBlock]int{}, bound: []string{bi, bj}, depth: fr.depth + 1}
	sub := st.clone()
	p0 := len(sub.pc)
	x.pureDepth++
	outs := x.runFrame(f, []Val{ai, aj}, args[1].Clo.Bindings, sub)
	x.pureDepth--
	term := "0"
	for i := len(outs) - 1; i >= 0; i-- {
		var conds []string
		for _, c := range outs[i].st.pc[p0:] {
			if pcKind(c) == 'c' {
				conds = append(conds, pcPlain(c))
			}
		}
		if i == len(outs)-1 {
			term = outs[i].ret.T
		} else {
			term = ite(and(conds...), outs[i].ret.T, term)
		}
	}
	st.assume(fmt.Sprintf("(forall ((%s Int) (%s Int)) (! (=> (and (<= 0 %s) (< %s %s) (< %s %s)) (<= %s 0)) :pattern ((select %s %s) (select %s %s))))", bi, bj, bi, bi, bj, bj, n, term, x.sliceArr(r), bi, x.sliceArr(r), bj))
	fr.env[cc.Args[0]] = r
	x.mu.Lock()
	x.trusted["library-contract:slices.SortFunc (permutation, sorted w.r.t. comparator)"] = true
	x.mu.Unlock()
	st.events = append(st.events, Event{Name: "call:slices.SortFunc", Args: args})
	return single(st, Val{T: "unit", S: SUnit})
}

// targetBindings: values of the captured variables of a closure target, created
// once per contract run (arbitrary values; verif.FreeVar reads them).
func (x *Run) targetBindings(cf *Frame, st *State) []Val {
	if cf == nil || cf.con == nil || cf.con.Target == nil {
		return nil
	}
	if cf.conBindings != nil {
		return cf.conBindings
	}
	tgt := cf.con.Target
	var bindings []Val
	for _, fv := range tgt.FreeVars {
		el := fv.Type().Underlying().(*types.Pointer).Elem()
		if isStruct(el) {
			ref := x.freshVal(st, "fv_"+fv.Name(), fv.Type())
			st.assume(fmt.Sprintf("(> %s 0)", ref.T))
			bindings = append(bindings, ref)
		} else {
			c := x.newCell(fv.Name(), el)
			v := x.freshVal(st, "fv_"+fv.Name(), el)
			if _, isPtr := types.Unalias(el).Underlying().(*types.Pointer); isPtr {
				st.assume(fmt.Sprintf("(> %s 0)", v.T))
			}
			st.cells[c] = v
			a := &Addr{Kind: ACell, Cell: c, Ty: el}
			bindings = append(bindings, Val{T: x.ptrTerm(a), S: SInt, Ty: fv.Type(), Addr: a})
		}
	}
	if bindings == nil {
		bindings = []Val{}
	}
	cf.conBindings = bindings
	return bindings
}

// mayWriteSliceParam: does fn (or an frp function it hands the slice to) store
// through a basic-element slice parameter? Syntactic, conservative: an element
// store or copy() whose destination is cut from a parameter, or passing such a
// slice on to a call that is not exempt.
func (x *Run) mayWriteSliceParam(fn *ssa.Function, seen map[*ssa.Function]bool) bool {
	if seen[fn] {
		return false
	}
	seen[fn] = true
	x.mu.Lock()
	if v, ok := x.sliceWriteCache[fn]; ok {
		x.mu.Unlock()
		return v
	}
	x.mu.Unlock()
	res := false
	hasSliceParam := false
	for _, p := range fn.Params {
		if sl, ok := types.Unalias(p.Type()).Underlying().(*types.Slice); ok {
			if _, basic := types.Unalias(sl.Elem()).Underlying().(*types.Basic); basic {
				hasSliceParam = true
			}
		}
	}
	if hasSliceParam {
		var fromParam func(v ssa.Value, d int) bool
		fromParam = func(v ssa.Value, d int) bool {
			if d > 8 {
				return true
			}
			switch v := v.(type) {
			case *ssa.Parameter:
				return true
			case *ssa.Slice:
				return fromParam(v.X, d+1)
			case *ssa.Phi:
				for _, e := range v.Edges {
					if e != ssa.Value(v) && fromParam(e, d+1) {
						return true
					}
				}
			}
			return false
		}
	scan:
		for _, b := range fn.Blocks {
			for _, ins := range b.Instrs {
				switch ins := ins.(type) {
				case *ssa.Store:
					if ia, ok := ins.Addr.(*ssa.IndexAddr); ok {
						if _, isSl := types.Unalias(ia.X.Type()).Underlying().(*types.Slice); isSl && fromParam(ia.X, 0) {
							res = true
							break scan
						}
					}
				case ssa.CallInstruction:
					cc := ins.Common()
					if bi, ok := cc.Value.(*ssa.Builtin); ok {
						if bi.Name() == "copy" && len(cc.Args) > 0 && fromParam(cc.Args[0], 0) {
							res = true
							break scan
						}
						continue
					}
					passes := false
					for _, a := range cc.Args {
						if sl, ok := types.Unalias(a.Type()).Underlying().(*types.Slice); ok {
							if _, basic := types.Unalias(sl.Elem()).Underlying().(*types.Basic); basic && fromParam(a, 0) {
								passes = true
							}
						}
					}
					if !passes {
						continue
					}
					nm := ""
					if cc.IsInvoke() {
						nm = cc.Method.Name()
					} else if sf := cc.StaticCallee(); sf != nil {
						nm = sf.Name()
						if x.spec.pureExt(sf) || x.spec.keepsArgs[sf.String()] {
							continue
						}
						if len(sf.Blocks) > 0 && strings.HasPrefix(pkgPathOf(sf), frpPrefix) {
							if x.mayWriteSliceParam(sf, seen) {
								res = true
								break scan
							}
							continue
						}
					}
					if strings.HasPrefix(nm, "Write") || strings.HasPrefix(nm, "write") {
						continue
					}
					res = true
					break scan
				}
			}
		}
	}
	x.mu.Lock()
	x.sliceWriteCache[fn] = res
	x.mu.Unlock()
	return res
}
