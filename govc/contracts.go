package main

// Contract use / verify machinery, intrinsics, pure evaluation, obligations.

import (
	"crypto/sha1"
	"fmt"
	"go/token"
	"go/types"
	"os"
	"path/filepath"
	"strings"
	"sync"

	"golang.org/x/tools/go/ssa"
)

const verifPkg = frpPrefix + "/verif"

type useCtx struct {
	base     *State
	done     bool
	heap     map[string]string
	epoch    int
	results  Val
	callSite ssa.Instruction
	caller   *Frame
	reached  bool
	dirty    map[string]bool
}

func (x *Run) isVerifPkg(fn *ssa.Function) bool {
	return pkgPathOf(fn) == verifPkg
}

// intrinsic handles verif.* calls. ok=false means "not an intrinsic".
func (x *Run) intrinsic(fr *Frame, st *State, fn *ssa.Function, args []Val, site ssa.Instruction) ([]Outcome, bool) {
	if !x.isVerifPkg(fn) {
		return nil, false
	}
	name := fn.Name()
	if i := strings.Index(name, "["); i >= 0 {
		name = name[:i]
	}
	unit := Val{T: "unit", S: SUnit}
	label := func(i int) string {
		if i < len(args) {
			if s, ok := x.litString(args[i].T); ok {
				return s
			}
		}
		return "anon"
	}
	cf := x.contractFrame(fr)
	if cf != nil && cf.mode == ModeContractUse {
		// at a call site the callee's internal call trace is not available: trace
		// queries yield unknown values (the clauses that use them give callers
		// nothing), and the caller's own trace must not be disturbed
		switch name {
		case "ResetEvents":
			return single(st, unit), true
		case "Called", "CalledWith", "CalledBefore", "CallCount", "CallCountWith", "CallCountWith2", "Sent", "SentOn", "ClosedEv", "Recovered", "CalledInIter", "CalledWithInIter",
			"RetInt", "RetErr", "RetBool", "RetStr", "Ret", "NthArg", "NthRet", "NetDelta",
			"IterArg", "IterRet", "HandlerName", "HandlerWrapper", "FreshInIter":
			return single(st, x.freshVal(st, "trace", fn.Signature.Results().At(0).Type())), true
		}
	}
	switch name {
	case "Requires":
		if cf != nil && cf.mode == ModeContractUse {
			caller := cf.useCtx.caller
			x.oblige(st, "pre."+x.fnShort(cf.con.Fn)+"."+label(1)+"@"+x.fnShort(caller.fn), "pre", args[0].T, cf.useCtx.callSite.Pos(), "precondition at call site")
			st.assume(args[0].T)
		} else {
			st.assume(args[0].T)
		}
		return single(st, unit), true
	case "Ensures":
		if cf != nil && cf.mode == ModeContractUse {
			st.assumeK(args[0].T, 'e')
		} else {
			x.oblige(st, "post."+x.unitShort()+"."+label(1), "post", args[0].T, site.Pos(), "")
			st.assume(args[0].T)
		}
		return single(st, unit), true
	case "Assert":
		if cf != nil && cf.mode == ModeContractUse {
			st.assumeK(args[0].T, 'e')
		} else {
			x.oblige(st, "lemma."+x.unitShort()+"."+label(1), "lemma", args[0].T, site.Pos(), "")
			st.assume(args[0].T)
		}
		return single(st, unit), true
	case "Assume":
		x.mu.Lock()
		x.assumed = append(x.assumed, x.unitShort()+": "+label(1))
		x.mu.Unlock()
		st.assume(args[0].T)
		return single(st, unit), true
	case "Snap":
		v := args[0]
		if mt := mapTypeOf(v.Ty); mt != nil {
			a := x.mapArrs(mt)
			st.nfresh++
			ref := intLit(int64(-st.nfresh))
			x.setArr(st, a.dom, store(x.arr(st, a.dom), ref, sel(x.arr(st, a.dom), v.T)))
			x.setArr(st, a.val, store(x.arr(st, a.val), ref, sel(x.arr(st, a.val), v.T)))
			x.setArr(st, a.ln, store(x.arr(st, a.ln), ref, sel(x.arr(st, a.ln), v.T)))
			return single(st, Val{T: ref, S: SInt, Ty: v.Ty, Fresh: true}), true
		}
		return single(st, v), true
	case "Held":
		if args[0].Inner != nil {
			args[0] = *args[0].Inner
		}
		key := x.lockKey(x.addrOf(args[0]))
		if st.held[key] == 1 {
			return single(st, Val{T: "true", S: SBool}), true
		}
		return single(st, Val{T: "false", S: SBool}), true
	case "HeldR":
		if args[0].Inner != nil {
			args[0] = *args[0].Inner
		}
		key := x.lockKey(x.addrOf(args[0]))
		if st.held[key] != 0 {
			return single(st, Val{T: "true", S: SBool}), true
		}
		return single(st, Val{T: "false", S: SBool}), true
	case "AssumeHeld":
		if args[0].Inner != nil {
			args[0] = *args[0].Inner
		}
		key := x.lockKey(x.addrOf(args[0]))
		st.held[key] = 1
		st.ghost["assumedheld:"+key] = "1"
		return single(st, unit), true
	case "Closed":
		return single(st, Val{T: sel(x.arr(st, x.chClosedFor(args[0], args[0].Ty)), args[0].T), S: SBool}), true
	case "ChanCap":
		return single(st, Val{T: sel(x.arr(st, x.chCapArr()), args[0].T), S: SInt, Ty: types.Typ[types.Int]}), true
	case "Any":
		return single(st, x.freshVal(st, "any", fn.Signature.Results().At(0).Type())), true
	case "Nullable":
		// Nullable(x): x, declared possibly nil - calling a method through it
		// (interface) or dereferencing it (pointer) is an obligation
		v := args[0]
		v.MaybeNil = true
		v.NilIface = v.S == SIface
		return single(st, v), true
	case "Sent":
		// Sent(ch, v): a send of v on ch happened on this path
		return single(st, Val{T: x.eventMatch(st, "send", args), S: SBool}), true
	case "FreeVar":
		// value of the captured variable of the (closure) target, by name
		vname, _ := x.litString(args[0].T)
		if cf != nil && cf.con != nil && cf.con.Target != nil {
			bs := x.targetBindings(cf, st)
			for i, fv := range cf.con.Target.FreeVars {
				if fv.Name() == vname && i < len(bs) {
					if bs[i].Addr != nil && bs[i].Addr.Kind == ACell {
						return single(st, x.load(st, bs[i].Addr, nil)), true
					}
					return single(st, bs[i]), true
				}
			}
		}
		return single(st, x.freshVal(st, "nofv", fn.Signature.Results().At(0).Type())), true
	case "HavocExcept":
		// HavocExcept(keep...): arbitrary effects on everything except the heap
		// arrays whose name contains one of the strings (specification of calls
		// to unknown code with a stated frame)
		var keep []string
		if len(args) == 1 && args[0].Tup != nil {
			for _, e := range args[0].Tup {
				if s, ok := x.litString(e.T); ok {
					keep = append(keep, s)
				}
			}
		}
		x.mu.Lock()
		x.trusted["assumed-frame-of-unknown-code:"+x.fnShort(fr.fn)+" keeps "+strings.Join(keep, " ")] = true
		x.mu.Unlock()
		x.havocAllExcept(st, keep)
		st.dirty["*"] = true
		return single(st, unit), true
	case "Visited":
		// Visited(m, k): the running range statement over m has already visited key k
		if mt := mapTypeOf(args[0].Ty); mt != nil {
			return single(st, Val{T: sel(sel(x.arr(st, x.visitedArr(mt)), args[0].T), args[1].T), S: SBool, Ty: types.Typ[types.Bool]}), true
		}
		return single(st, Val{T: "false", S: SBool}), true
	case "FreshInIter":
		// FreshInIter(p): p points to an object allocated during the current loop
		// iteration (after the last loop head on this path)
		base := int64(-1)
		for _, e := range st.events {
			if strings.HasPrefix(e.Name, "loop:") {
				if n, ok := litInt(e.Ret.T); ok {
					base = int64(n)
				}
			}
		}
		v := args[0]
		if v.Inner != nil {
			v = *v.Inner
		}
		ref := v.T
		if v.Addr != nil && v.Addr.Kind == AObj {
			ref = v.Addr.Ref
		}
		// objects allocated on the path are the literals (- k), k counting up
		var k int64
		if _, err := fmt.Sscanf(ref, "(- %d)", &k); err == nil && base >= 0 && k > base {
			return single(st, Val{T: "true", S: SBool}), true
		}
		return single(st, Val{T: "false", S: SBool}), true
	case "HandlerWrapper":
		// HandlerWrapper(f): the name of the function literal / function a
		// function value was made from when it is not itself a bound method
		// ("AsyncHandler$1" for msg.AsyncHandler(h)); "" for a method value
		v := args[0]
		if v.Inner != nil {
			v = *v.Inner
		}
		if v.Clo == nil && v.T != "" {
			vt := simpSelect(v.T)
			for i := len(st.closures) - 1; i >= 0; i-- {
				if st.closures[i].T == vt && st.closures[i].Clo != nil {
					v = st.closures[i]
					break
				}
			}
		}
		res := ""
		if v.Clo != nil && !strings.HasSuffix(v.Clo.Fn.Name(), "$bound") {
			res = v.Clo.Fn.Name()
		}
		return single(st, Val{T: x.d.lit(res), S: SStr, Ty: types.Typ[types.String]}), true
	case "HandlerName":
		// HandlerName(f): the name of the method a function value is bound to,
		// looking through wrapper closures that capture exactly one function
		// (msg.AsyncHandler); "" when the value is not such a method value
		v := args[0]
		if v.Inner != nil {
			v = *v.Inner
		}
		res := ""
		if v.Clo == nil && v.T != "" {
			// the value went through a struct field or the heap: closures made on
			// this path are identified by their (literal) identity
			vt := simpSelect(v.T)
			for i := len(st.closures) - 1; i >= 0; i-- {
				if st.closures[i].T == vt && st.closures[i].Clo != nil {
					v = st.closures[i]
					break
				}
			}
			if v.Clo == nil && os.Getenv("GOVC_DEBUG_HANDLER") != "" {
				fmt.Fprintf(os.Stderr, "HandlerName: unresolved %s\n", v.T)
			}
		}
		for depth := 0; depth < 4 && v.Clo != nil; depth++ {
			fn := v.Clo.Fn
			if strings.HasSuffix(fn.Name(), "$bound") {
				res = strings.TrimSuffix(fn.Name(), "$bound")
				break
			}
			var next *Val
			for i := range v.Clo.Bindings {
				b := v.Clo.Bindings[i]
				if b.Addr != nil && b.Addr.Kind == ACell {
					b = x.load(st, b.Addr, nil)
				}
				if b.Clo != nil {
					if next != nil {
						next = nil
						break
					}
					bb := b
					next = &bb
				}
			}
			if next == nil {
				break
			}
			v = *next
		}
		return single(st, Val{T: x.d.lit(res), S: SStr, Ty: types.Typ[types.String]}), true
	case "FieldTag", "FieldType":
		// FieldTag[T](name) / FieldType[T](name): the struct tag / the Go type of
		// field name of struct type T, read from the type-checked source
		res := "<no such field>"
		if ta := fn.TypeArgs(); len(ta) == 1 {
			if stt, ok := types.Unalias(ta[0]).Underlying().(*types.Struct); ok {
				fname, _ := x.litString(args[0].T)
				for i := 0; i < stt.NumFields(); i++ {
					if stt.Field(i).Name() == fname {
						if name == "FieldTag" {
							res = stt.Tag(i)
						} else {
							var own *types.Package
							if nt, ok := types.Unalias(ta[0]).(*types.Named); ok {
								own = nt.Obj().Pkg()
							}
							res = types.TypeString(stt.Field(i).Type(), func(p *types.Package) string {
								if p == own {
									return ""
								}
								return p.Name()
							})
						}
					}
				}
			}
		}
		return single(st, Val{T: x.d.lit(res), S: SStr, Ty: types.Typ[types.String]}), true
	case "SameObject", "Same":
		return single(st, Val{T: eq(args[0].T, args[1].T), S: SBool}), true
	case "SentOn":
		return single(st, Val{T: x.eventMatch(st, "send", args[:1]), S: SBool}), true
	case "ClosedEv":
		return single(st, Val{T: x.eventMatch(st, "close", args), S: SBool}), true
	case "Called":
		// Called("name-substring"): some call event whose name contains the string happened
		s, _ := x.litString(args[0].T)
		for _, e := range st.events {
			if evNameMatch(e.Name, s) {
				return single(st, Val{T: "true", S: SBool}), true
			}
		}
		return single(st, Val{T: "false", S: SBool}), true
	case "CallCount":
		s, _ := x.litString(args[0].T)
		n := 0
		for _, e := range st.events {
			if evNameMatch(e.Name, s) {
				n++
			}
		}
		return single(st, Val{T: fmt.Sprint(n), S: SInt, Ty: types.Typ[types.Int]}), true
	case "Exists", "Forall":
		// Exists(lo, hi, f) / Forall(lo, hi, f): bounded quantifier over the
		// integers lo <= k < hi; f is a side-effect-free function literal
		if len(args) != 3 || args[2].Clo == nil {
			x.unsupported("verif."+name+" needs a function literal", site.Pos())
			return single(st, x.freshVal(st, "quant", types.Typ[types.Bool])), true
		}
		bk := x.d.fresh("bk", SInt)
		qf := &Frame{fn: args[2].Clo.Fn, env: map[ssa.Value]Val{}, names: map[string]Val{}, parent: fr, mode: ModePure, cut: map[*ssa.BasicBlock]bool{}, unroll: map[*ssa.BasicBlock]int{}, bound: append(append([]string(nil), fr.bound...), bk), depth: fr.depth + 1}
		sub := st.clone()
		p0 := len(sub.pc)
		x.pureDepth++
		qouts := x.runFrame(qf, []Val{{T: bk, S: SInt, Ty: types.Typ[types.Int]}}, args[2].Clo.Bindings, sub)
		x.pureDepth--
		term := "false"
		first := true
		for i := len(qouts) - 1; i >= 0; i-- {
			if qouts[i].panic {
				continue
			}
			var conds []string
			for _, c := range qouts[i].st.pc[p0:] {
				if pcKind(c) == 'c' {
					conds = append(conds, pcPlain(c))
				}
			}
			if first {
				term = qouts[i].ret.T
				first = false
			} else {
				term = ite(and(conds...), qouts[i].ret.T, term)
			}
		}
		rng := fmt.Sprintf("(and (<= %s %s) (< %s %s))", args[0].T, bk, bk, args[1].T)
		var qt string
		if name == "Exists" {
			qt = fmt.Sprintf("(exists ((%s Int)) (and %s %s))", bk, rng, term)
		} else {
			qt = fmt.Sprintf("(forall ((%s Int)) (=> %s %s))", bk, rng, term)
		}
		return single(st, Val{T: qt, S: SBool, Ty: types.Typ[types.Bool]}), true
	case "CallCountWith", "CallCountWith2":
		s, _ := x.litString(args[0].T)
		var terms []string
		for _, e := range st.events {
			if !evNameMatch(e.Name, s) {
				continue
			}
			var conds []string
			okEv := true
			for k := 1; k+1 < len(args); k += 2 {
				idx, _ := litInt(args[k].T)
				if idx >= len(e.Args) || e.Args[idx].S != args[k+1].S {
					okEv = false
					break
				}
				conds = append(conds, eq(e.Args[idx].T, args[k+1].T))
			}
			if okEv {
				terms = append(terms, ite(and(conds...), "1", "0"))
			}
		}
		t := "0"
		if len(terms) == 1 {
			t = terms[0]
		} else if len(terms) > 1 {
			t = "(+ " + strings.Join(terms, " ") + ")"
		}
		return single(st, Val{T: t, S: SInt, Ty: types.Typ[types.Int]}), true
	case "CalledWith":
		// CalledWith("name", i, v): some matching call had argument i equal to v
		s, _ := x.litString(args[0].T)
		idx, _ := litInt(args[1].T)
		var alts []string
		for _, e := range st.events {
			if evNameMatch(e.Name, s) && idx < len(e.Args) && e.Args[idx].S == args[2].S {
				alts = append(alts, eq(e.Args[idx].T, args[2].T))
			}
		}
		return single(st, Val{T: or(alts...), S: SBool}), true
	case "NthArg", "NthRet":
		sname, _ := x.litString(args[0].T)
		nth, _ := litInt(args[1].T)
		idx, _ := litInt(args[2].T)
		k := 0
		for _, e := range st.events {
			if !evNameMatch(e.Name, sname) {
				continue
			}
			if k == nth {
				var r Val
				if name == "NthArg" {
					if idx < len(e.Args) {
						r = e.Args[idx]
					}
				} else {
					r = e.Ret
					if r.S == "Tuple" && idx < len(r.Tup) {
						r = r.Tup[idx]
					}
				}
				want := x.d.sortOf(fn.Signature.Results().At(0).Type())
				if r.S == want {
					return single(st, r), true
				}
				if want == SIface && r.S != "" && r.S != "Tuple" {
					return single(st, x.box(st, r, fn.Signature.Results().At(0).Type())), true
				}
				break
			}
			k++
		}
		if os.Getenv("GOVC_DEBUG_NTH") != "" {
			for i, e := range st.events {
				if evNameMatch(e.Name, sname) {
					fmt.Fprintf(os.Stderr, "NTH %s #%d ev[%d]=%s retS=%q tup=%d\n", sname, nth, i, e.Name, e.Ret.S, len(e.Ret.Tup))
				}
			}
		}
		return single(st, x.freshVal(st, "nonth", fn.Signature.Results().At(0).Type())), true
	case "DynPtrTo":
		// DynPtrTo(ret, content): ret holds a non-nil pointer to the dynamic type of content
		c := args[1]
		if c.Inner != nil && c.Inner.Ty != nil {
			tag := x.d.tag(types.NewPointer(c.Inner.Ty))
			return single(st, Val{T: and(not(eq(args[0].T, "inil")), eq(app("itag", args[0].T), fmt.Sprint(tag)), fmt.Sprintf("(> (ival %s) 0)", args[0].T)), S: SBool}), true
		}
		return single(st, x.freshVal(st, "dynptr", types.Typ[types.Bool])), true
	case "CalledInIter", "CalledWithInIter":
		// like Called / CalledWith, restricted to the events after the last loop marker
		s, _ := x.litString(args[0].T)
		need := 1 // "name@k": at least k+1 matching calls in this iteration
		if at := strings.LastIndex(s, "@"); at > 0 && at == len(s)-2 && s[at+1] >= '0' && s[at+1] <= '9' {
			need = int(s[at+1]-'0') + 1
			s = s[:at]
		}
		start := 0
		for i, e := range st.events {
			if strings.HasPrefix(e.Name, "loop:") {
				start = i + 1
			}
		}
		var alts []string
		seenN := 0
		for _, e := range st.events[start:] {
			if !evNameMatch(e.Name, s) {
				continue
			}
			seenN++
			if name == "CalledInIter" {
				if seenN >= need {
					return single(st, Val{T: "true", S: SBool}), true
				}
				continue
			}
			idx, _ := litInt(args[1].T)
			if idx < len(e.Args) && e.Args[idx].S == args[2].S {
				alts = append(alts, eq(e.Args[idx].T, args[2].T))
			}
		}
		return single(st, Val{T: or(alts...), S: SBool}), true
	case "IterArg", "IterRet":
		// argument / result i of the last call matching s within the current loop iteration
		sname, _ := x.litString(args[0].T)
		// "name@k": the k-th matching call counted back from the last one
		skip := 0
		if at := strings.LastIndex(sname, "@"); at > 0 && at == len(sname)-2 && sname[at+1] >= '0' && sname[at+1] <= '9' {
			skip = int(sname[at+1] - '0')
			sname = sname[:at]
		}
		idx, _ := litInt(args[1].T)
		start := 0
		for i, e := range st.events {
			if strings.HasPrefix(e.Name, "loop:") {
				start = i + 1
			}
		}
		want := x.d.sortOf(fn.Signature.Results().At(0).Type())
		for i := len(st.events) - 1; i >= start; i-- {
			e := st.events[i]
			if !evNameMatch(e.Name, sname) {
				continue
			}
			if skip > 0 {
				skip--
				continue
			}
			var r Val
			if name == "IterArg" {
				if idx < len(e.Args) {
					r = e.Args[idx]
				}
			} else {
				r = e.Ret
				if r.S == "Tuple" && idx < len(r.Tup) {
					r = r.Tup[idx]
				}
			}
			if r.S == want {
				return single(st, r), true
			}
			if want == SIface && r.S != "" && r.S != "Tuple" {
				return single(st, x.box(st, r, fn.Signature.Results().At(0).Type())), true
			}
		}
		return single(st, x.freshVal(st, "noiter", fn.Signature.Results().At(0).Type())), true
	case "RunClosure":
		// runs (now, on this path) the most recent closure created on this path whose
		// function name contains s: "what would this registered callback do?"
		sname, _ := x.litString(args[0].T)
		for i := len(st.closures) - 1; i >= 0; i-- {
			c := st.closures[i]
			if c.Clo != nil && strings.Contains(c.Clo.Fn.String(), sname) {
				f := &Frame{fn: c.Clo.Fn, env: map[ssa.Value]Val{}, names: map[string]Val{}, parent: fr, mode: ModeNormal, cut: map[*ssa.BasicBlock]bool{}, unroll: map[*ssa.BasicBlock]int{}, depth: fr.depth + 1, selfRun: true}
				outs := x.runFrame(f, nil, c.Clo.Bindings, st)
				var res []Outcome
				for _, o := range outs {
					if !o.panic {
						res = append(res, Outcome{st: o.st, ret: Val{T: "true", S: SBool}})
					}
				}
				return res, true
			}
		}
		return single(st, Val{T: "false", S: SBool}), true
	case "CalledBefore":
		a, _ := x.litString(args[0].T)
		b, _ := x.litString(args[1].T)
		ia, ib := -1, -1
		for i, e := range st.events {
			if ia < 0 && evNameMatch(e.Name, a) {
				ia = i
			}
			if ib < 0 && evNameMatch(e.Name, b) {
				ib = i
			}
		}
		if ia >= 0 && ib >= 0 && ia < ib {
			return single(st, Val{T: "true", S: SBool}), true
		}
		return single(st, Val{T: "false", S: SBool}), true
	case "RetInt", "RetErr", "RetBool", "RetStr", "Ret":
		s, _ := x.litString(args[0].T)
		idx, _ := litInt(args[1].T)
		for i := len(st.events) - 1; i >= 0; i-- {
			e := st.events[i]
			if evNameMatch(e.Name, s) {
				r := e.Ret
				if r.S == "Tuple" && idx < len(r.Tup) {
					r = r.Tup[idx]
				}
				if r.S == x.d.sortOf(fn.Signature.Results().At(0).Type()) {
					return single(st, r), true
				}
			}
		}
		return single(st, x.freshVal(st, "noret", fn.Signature.Results().At(0).Type())), true
	case "NetDelta":
		// NetDelta(&obj.field): net change applied to a guarded integer field inside locked regions on this path
		a := x.addrOf(args[0])
		if args[0].Inner != nil {
			a = x.addrOf(*args[0].Inner)
		}
		if a.Kind == AField {
			k := x.fieldArr(a.Ty, a.Field) + ":" + a.Ref
			d := st.ghost["delta:"+k]
			if d == "" {
				d = "0"
			}
			return single(st, Val{T: d, S: SInt, Ty: types.Typ[types.Int]}), true
		}
		return single(st, x.freshVal(st, "nodelta", types.Typ[types.Int])), true
	case "ResetEvents":
		st.events = nil
		return single(st, unit), true
	case "Recovered":
		for _, t := range st.trace {
			if t == "recover" {
				return single(st, Val{T: "true", S: SBool}), true
			}
		}
		return single(st, Val{T: "false", S: SBool}), true
	case "TypeIs":
		// TypeIs(iface, "substring of dynamic type name")
		return nil, false
	}
	return nil, false
}

func (x *Run) eventMatch(st *State, name string, args []Val) string {
	var alts []string
	for _, e := range st.events {
		if e.Name != name && !strings.HasPrefix(e.Name, name+":") {
			continue
		}
		var cs []string
		ok := true
		for i, a := range args {
			if i >= len(e.Args) {
				break
			}
			ea := e.Args[i]
			if ea.S != a.S {
				if a.S == SIface && ea.S != SIface {
					ea = x.box(st, ea, a.Ty)
				} else {
					ok = false
					break
				}
			}
			cs = append(cs, eq(ea.T, a.T))
		}
		if ok {
			alts = append(alts, and(cs...))
		}
	}
	return or(alts...)
}

func (x *Run) litString(term string) (string, bool) {
	x.d.mu.Lock()
	defer x.d.mu.Unlock()
	for s, n := range x.d.lits {
		if n == term {
			return s, true
		}
	}
	return "", false
}

func (x *Run) unitShort() string { return x.unit }

func (x *Run) contractFrame(fr *Frame) *Frame {
	for f := fr; f != nil; f = f.parent {
		if f.con != nil && (f.mode == ModeContractVerify || f.mode == ModeContractUse) {
			return f
		}
		if f.selfRun {
			return nil
		}
	}
	return nil
}

func (s *State) assumeK(c string, k byte) {
	if c == "true" || c == "" {
		return
	}
	s.pc = append(s.pc, string(k)+"\x00"+c)
}

// pcPlain strips kind markers.
func pcPlain(c string) string {
	if len(c) > 2 && c[1] == 0 {
		return c[2:]
	}
	return c
}

func pcKind(c string) byte {
	if len(c) > 2 && c[1] == 0 {
		return c[0]
	}
	return 'f'
}

// useContract applies a callee's contract at a call site.
func (x *Run) useContract(fr *Frame, st *State, con *Contract, args []Val, site ssa.Instruction) []Outcome {
	x.mu.Lock()
	x.trusted["contract:"+x.fnShort(con.Fn)] = con.Trusted
	x.mu.Unlock()
	// a decoder / reader under contract (Read*, Decode*, Unmarshal*, ...) fills
	// what it is handed: local variables of the caller handed over by address,
	// and fresh objects handed over inside an interface value ("decode into
	// this") - locations the callee's static mod-set does not name
	decoder := false
	{
		tn := con.TargetName
		if i := strings.LastIndexAny(tn, ".)"); i >= 0 {
			tn = tn[i+1:]
		}
		for _, p := range []string{"Read", "Decode", "Unmarshal", "Scan", "UnPack", "LoadConfigure"} {
			if strings.HasPrefix(tn, p) {
				decoder = true
			}
		}
	}
	if decoder && !(con.Modifies != nil && len(con.Modifies) == 0) {
		for _, a := range args {
			pa, boxed := a, false
			if pa.Inner != nil {
				pa, boxed = *pa.Inner, true
			}
			// (an object handed over inside an interface value - "decode into
			// this" - is written through reflection / library code the static
			// mod-set of the callee does not see)
			if pa.Addr != nil && (pa.Addr.Kind == ACell || (boxed && pa.Addr.Kind == AObj && pa.Addr.Fresh)) {
				x.havocPointee(st, pa)
			}
		}
	}
	cfn := con.Fn
	all := append([]Val(nil), args...)
	var bound []string
	var bsorts []Sort
	var guards []string
	for i := len(args); i < len(cfn.Params); i++ {
		tmp := newState()
		q := x.freshVal(tmp, "bq", cfn.Params[i].Type())
		bound = append(bound, q.T)
		bsorts = append(bsorts, q.S)
		for _, g := range tmp.pc {
			guards = append(guards, pcPlain(g))
		}
		all = append(all, q)
	}
	// monitor methods: the table may have changed before the callee takes its lock
	if con.Target != nil && x.spec.locksReceiver(con.Target) && len(args) > 0 {
		x.havocGuarded(st, args[0], con.Target)
	}
	ctx := &useCtx{base: st, callSite: site, caller: fr}
	sub := st.clone()
	p0 := len(sub.pc)
	f := &Frame{fn: cfn, env: map[ssa.Value]Val{}, names: map[string]Val{}, parent: fr, mode: ModeContractUse, cut: map[*ssa.BasicBlock]bool{}, unroll: map[*ssa.BasicBlock]int{}, depth: fr.depth + 1, con: con, useCtx: ctx, bound: bound}
	x.pureDepth++
	outs := x.runFrame(f, all, nil, sub)
	x.pureDepth--
	if !ctx.done {
		// self call never reached (e.g. all paths ended): still havoc
		x.prepareUse(ctx, con, st)
	}
	res := st
	res.lit = map[string]map[string]Val{}
	res.heap = map[string]string{}
	for k, v := range ctx.heap {
		res.heap[k] = v
	}
	res.epoch = ctx.epoch
	exportedUse := map[string]bool{}
	for _, o := range outs {
		if o.panic {
			continue
		}
		var conds, ens []string
		condsBound := false
		for _, c := range o.st.pc[p0:] {
			switch pcKind(c) {
			case 'c':
				conds = append(conds, pcPlain(c))
				if mentionsAny(pcPlain(c), bound) {
					condsBound = true
				}
			case 'e':
				ens = append(ens, pcPlain(c))
			default:
				// an engine assumption made on one path of the contract body
				// (A-NONNIL at a dereference inside `if err == nil { ... }`) holds
				// under that path's conditions only
				if !mentionsAny(pcPlain(c), bound) {
					a := pcPlain(c)
					if len(conds) > 0 {
						if condsBound {
							continue
						}
						a = implies(and(conds...), a)
					}
					if !exportedUse[a] {
						exportedUse[a] = true
						res.assume(a)
					}
				}
			}
		}
		if len(ens) == 0 {
			continue
		}
		body := implies(and(append(append([]string(nil), guards...), conds...)...), and(ens...))
		res.assume(forall(bound, bsorts, body))
	}
	res.events = append(res.events, Event{Name: "call:" + con.TargetName, Args: args, Ret: ctx.results})
	for k := range ctx.dirty {
		res.dirty[k] = true
	}
	return single(res, ctx.results)
}

func mentionsAny(t string, names []string) bool {
	for _, n := range names {
		if strings.Contains(t, n) {
			return true
		}
	}
	return false
}

func (x *Run) prepareUse(ctx *useCtx, con *Contract, st *State) {
	ctx.done = true
	h := ctx.base.clone()
	if con.Target != nil {
		ms := newModSet()
		if !con.Trusted {
			ms = x.modSet(con.Target)
		}
		if ms.Top && traceOn {
			fmt.Fprintf(os.Stderr, "modset of %s is TOP: %s\n", con.TargetName, ms.Why)
		}
		if con.Modifies != nil {
			x.mu.Lock()
			x.trusted["declared-frame:"+x.fnShort(con.Fn)] = true
			x.mu.Unlock()
			ms = newModSet()
			for _, m := range con.Modifies {
				ms.Arrs[m] = true
			}
		}
		x.applyHavoc(h, ms)
		ctx.results = x.freshResults(h, con.Target.Signature.Results())
		if x.spec.nullable[con.TargetName] {
			// declared "nullable-result": the pointer result may be nil (comma-ok
			// lookups) - dereferencing it is an obligation, not an assumption
			if len(ctx.results.Tup) > 0 {
				ctx.results.Tup[0].MaybeNil = true
				ctx.results.Tup[0].NilIface = ctx.results.Tup[0].S == SIface
			} else {
				ctx.results.MaybeNil = true
				ctx.results.NilIface = ctx.results.S == SIface
			}
		}
	} else {
		// interface method / external: declared modifies or nothing
		for _, m := range con.Modifies {
			if m == "*" {
				x.havocAllExcept(h, con.Preserves)
			} else {
				for _, n := range x.expandMod(m) {
					x.havocArr(h, n)
				}
			}
		}
		ctx.results = x.freshResults(h, con.Sig.Results())
	}
	ctx.heap = h.heap
	ctx.epoch = h.epoch
	ctx.dirty = h.dirty
	// typing facts for results
	for _, c := range h.pc[len(ctx.base.pc):] {
		ctx.base.assume(pcPlain(c))
	}
}

func (x *Run) useSelfCall(fr *Frame, st *State, fn *ssa.Function, args []Val, site ssa.Instruction) []Outcome {
	ctx := fr.useCtx
	if !ctx.done {
		x.prepareUse(ctx, fr.con, st)
	}
	st.heap = map[string]string{}
	st.lit = map[string]map[string]Val{}
	for k, v := range ctx.heap {
		st.heap[k] = v
	}
	st.epoch = ctx.epoch
	return single(st, ctx.results)
}

// havocGuarded forgets the guarded fields' contents of the receiver object.
func (x *Run) havocGuarded(st *State, recv Val, fn *ssa.Function) {
	if recv.Ty == nil {
		return
	}
	p, ok := types.Unalias(recv.Ty).Underlying().(*types.Pointer)
	if !ok || !isStruct(p.Elem()) {
		return
	}
	stt, _ := structOf(p.Elem())
	for i := 0; i < stt.NumFields(); i++ {
		if x.spec.guardOf(p.Elem(), i) >= 0 {
			x.havocFieldContents(st, recv.T, p.Elem(), i)
		}
	}
}

func (x *Run) havocFieldContents(st *State, ref string, ty types.Type, i int) {
	stt, _ := structOf(ty)
	ft := stt.Field(i).Type()
	if mapTypeOf(ft) != nil {
		m := x.loadField(st, ref, ty, i)
		x.havocMapContents(st, m)
		return
	}
	x.storeField(st, ref, ty, i, x.freshVal(st, "hv_"+stt.Field(i).Name(), ft))
}

// evalPure evaluates a pure function to a single term (ite over its paths).
func (x *Run) evalPure(fr *Frame, st *State, fn *ssa.Function, args []Val, bound []string) string {
	sub := st.clone()
	p0 := len(sub.pc)
	f := &Frame{fn: fn, env: map[ssa.Value]Val{}, names: map[string]Val{}, parent: fr, mode: ModePure, cut: map[*ssa.BasicBlock]bool{}, unroll: map[*ssa.BasicBlock]int{}, bound: bound}
	if fr != nil {
		f.depth = fr.depth + 1
	}
	x.pureDepth++
	outs := x.runFrame(f, args, nil, sub)
	x.pureDepth--
	term := "false"
	first := true
	exported := map[string]bool{}
	for i := len(outs) - 1; i >= 0; i-- {
		o := outs[i]
		if o.panic {
			continue
		}
		// Engine assumptions made inside the pure function (type ranges,
		// A-NONNIL at a dereference, ...) hold only on the branch that made
		// them: they are exported guarded by the branch conditions that
		// precede them, never unconditionally (an unconditional export made
		// the caller's path condition contradictory whenever a guarded
		// dereference was infeasible, discharging obligations vacuously).
		var conds []string
		condsBound := false
		for _, c := range o.st.pc[p0:] {
			if pcKind(c) == 'c' {
				conds = append(conds, pcPlain(c))
				if mentionsAny(pcPlain(c), bound) {
					condsBound = true
				}
			} else if !mentionsAny(pcPlain(c), bound) {
				a := pcPlain(c)
				if len(conds) > 0 {
					if condsBound {
						continue
					}
					a = implies(and(conds...), a)
				}
				if !exported[a] {
					exported[a] = true
					st.assume(a)
				}
			}
		}
		if first {
			term = o.ret.T
			first = false
		} else {
			term = ite(and(conds...), o.ret.T, term)
		}
	}
	return term
}

// ---------- obligations ----------

func (x *Run) oblige(st *State, name, kind, goal string, pos token.Pos, note string) {
	if (x.pureDepth > 0 || x.inInit) && (kind == "nopanic" || kind == "lock") {
		return
	}
	if x.kindFilter != nil && !x.kindFilter[kind] {
		return
	}
	ob := &Obligation{Name: name, Kind: kind, Unit: x.unit, Pos: x.posStr(pos), Goal: goal, Trace: append([]string(nil), st.trace...), Note: note}
	ob.pcRef = st.pc[:len(st.pc):len(st.pc)]
	if goal == "true" {
		ob.Static = true
		ob.StaticOK = true
		x.mu.Lock()
		x.obls = append(x.obls, ob)
		x.mu.Unlock()
		return
	}
	var b strings.Builder
	b.WriteString(x.d.preamble())
	for _, c := range st.pc {
		b.WriteString("(assert ")
		b.WriteString(pcPlain(c))
		b.WriteString(")\n")
	}
	b.WriteString("(assert (not " + goal + "))\n")
	ob.body = b.String()
	x.mu.Lock()
	x.obls = append(x.obls, ob)
	ob.PathID = len(x.obls)
	x.mu.Unlock()
	x.wg.Add(1)
	go func() {
		defer x.wg.Done()
		r := x.solveCached(ob.body)
		if r.Status != "unsat" && r.Status != "sat" && false {
			r2 := solve(ob.body, x.timeout*6, true, nil)
			if r2.Status == "unsat" || r2.Status == "sat" {
				r = r2
			}
		}
		ob.Result = r
		if d := os.Getenv("GOVC_TRACE_OBL"); d != "" && strings.Contains(ob.Name, d) {
			pcs := "?"
			if os.Getenv("GOVC_TRACE_PCSAT") != "" {
				var b strings.Builder
				for _, l := range strings.Split(x.d.preamble(), "\n") {
					if !strings.Contains(l, "(forall ") {
						b.WriteString(l + "\n")
					}
				}
				for _, c := range ob.pcRef {
					if pl := pcPlain(c); !strings.Contains(pl, "(forall ") {
						b.WriteString("(assert " + pl + ")\n")
					}
				}
				pcs = solve(b.String(), 3, false, []string{"z3-new"}).Status
				if d := os.Getenv("GOVC_TRACE_PCDIR"); d != "" && pcs == "unsat" {
					var c strings.Builder
					c.WriteString("(set-option :produce-unsat-cores true)\n")
					for _, l := range strings.Split(x.d.preamble(), "\n") {
						if !strings.Contains(l, "(forall ") {
							c.WriteString(l + "\n")
						}
					}
					for i, cc := range ob.pcRef {
						if pl := pcPlain(cc); !strings.Contains(pl, "(forall ") {
							c.WriteString(fmt.Sprintf("(assert (! %s :named a%d))\n", pl, i))
						}
					}
					c.WriteString("(check-sat)\n(get-unsat-core)\n")
					os.WriteFile(filepath.Join(d, fmt.Sprintf("pc%d.smt2", ob.PathID)), []byte(fmt.Sprintf("; %v\n", ob.Trace)+c.String()), 0o644)
				}
			}
			fmt.Fprintf(os.Stderr, "OBL %s -> %s pc=%s goal=%.120s trace=%v\n", ob.Name, r.Status, pcs, ob.Goal, ob.Trace)
		}
	}()
}

func (x *Run) obligeStatic(st *State, name, kind string, ok bool, pos token.Pos, note string) {
	if x.kindFilter != nil && !x.kindFilter[kind] {
		return
	}
	ob := &Obligation{Name: name, Kind: kind, Unit: x.unit, Pos: x.posStr(pos), Static: true, StaticOK: ok, Trace: append([]string(nil), st.trace...), Note: note}
	ob.pcRef = st.pc[:len(st.pc):len(st.pc)]
	x.mu.Lock()
	x.obls = append(x.obls, ob)
	x.mu.Unlock()
}

// checkSat is used for cover (vacuity) checks.
func (x *Run) pathSat(st *State) SolveResult {
	var b strings.Builder
	b.WriteString(x.d.preamble())
	for _, c := range st.pc {
		b.WriteString("(assert " + pcPlain(c) + ")\n")
	}
	return solve(b.String(), x.timeout, false, nil)
}

var solveCache sync.Map

// solveCached: z3-new alone first (most obligations are immediate), then the
// three-solver race, then the race with 6x budget.
func (x *Run) solveCached(body string) SolveResult {
	h := sha1.Sum([]byte(body))
	key := string(h[:])
	if v, ok := solveCache.Load(key); ok {
		return v.(SolveResult)
	}
	r := solve(body, 2, true, []string{"z3-new"})
	if r.Status != "unsat" && r.Status != "sat" {
		r = solve(body, x.timeout, true, nil)
	}
	if r.Status != "unsat" && r.Status != "sat" && *flagTier == "thorough" {
		r2 := solve(body, x.timeout*6, true, nil)
		if r2.Status == "unsat" || r2.Status == "sat" {
			r = r2
		}
	}
	if *flagEachSolver && r.Status == "unsat" {
		// thorough tier: a proof is accepted only if no other solver refutes the
		// same query (disagreement means a solver or encoding problem and is
		// reported, not hidden); solvers that give up do not count
		for _, sp := range solvers {
			if sp.name == r.Solver {
				continue
			}
			r2 := solve(body, x.timeout, false, []string{sp.name})
			eachSolverMu.Lock()
			eachSolverRuns[sp.name+":"+r2.Status]++
			eachSolverMu.Unlock()
			if r2.Status == "sat" {
				r = SolveResult{Status: "unknown", Solver: r.Solver + " vs " + sp.name, Raw: "solver disagreement: " + r.Solver + " unsat, " + sp.name + " sat", Ms: r.Ms + r2.Ms}
				break
			}
		}
	}
	solveCache.Store(key, r)
	return r
}

var (
	eachSolverMu   sync.Mutex
	eachSolverRuns = map[string]int{}
)

// evNameMatch: the event name contains pat, not followed by '$' (closures of
// the named function are different events).
func evNameMatch(name, pat string) bool {
	// loop markers ("loop:<function>#n") are not calls of <function>
	if strings.HasPrefix(name, "loop:") && !strings.HasPrefix(pat, "loop:") {
		return false
	}
	// a pattern ending in "$" must match the end of the event name ("Write$"
	// does not match "WriteHeader")
	if strings.HasSuffix(pat, "$") && len(pat) > 1 {
		return strings.HasSuffix(name, pat[:len(pat)-1])
	}
	i := strings.Index(name, pat)
	for i >= 0 {
		j := i + len(pat)
		if j >= len(name) || name[j] != '$' {
			return true
		}
		k := strings.Index(name[j:], pat)
		if k < 0 {
			return false
		}
		i = j + k
	}
	return false
}
