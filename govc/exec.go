package main

// Symbolic executor over go/ssa: block/instruction interpreter.

import (
	"crypto/sha1"
	"fmt"
	"go/constant"
	"go/token"
	"go/types"
	"os"
	"strings"
	"sync"

	"golang.org/x/tools/go/ssa"
)

type Outcome struct {
	st       *State
	ret      Val
	panic    bool
	pval     Val
	stopped  bool // reached the frame's stopAt block (region merging)
	stopFrom *ssa.BasicBlock
	stopEnv  map[ssa.Value]Val
}

var diagArms = os.Getenv("GOVC_DEADARMS") != ""

const maxSteps = 4000000

// pruneAfterPaths: from this many paths on, every fork is preceded by a solver
// feasibility check of both arms.
const pruneAfterPaths = 8000

func (x *Run) runFunc(fn *ssa.Function, args []Val, bindings []Val, st *State, parent *Frame, mode FrameMode) []Outcome {
	fr := &Frame{fn: fn, env: map[ssa.Value]Val{}, names: map[string]Val{}, parent: parent, mode: mode, cut: map[*ssa.BasicBlock]bool{}, unroll: map[*ssa.BasicBlock]int{}}
	if parent != nil {
		fr.depth = parent.depth + 1
		fr.bound = parent.bound
	}
	return x.runFrame(fr, args, bindings, st)
}

var traceOn = os.Getenv("GOVC_TRACE") != ""

func (x *Run) runFrame(fr *Frame, args []Val, bindings []Val, st *State) []Outcome {
	fn := fr.fn
	if traceOn {
		sz := 0
		for _, c := range st.pc {
			sz += len(c)
		}
		fmt.Fprintf(os.Stderr, "%*s> %s mode=%d pc=%d/%dB heap=%d\n", fr.depth*2, "", x.fnShort(fn), fr.mode, len(st.pc), sz, len(st.heap))
	}
	if len(fn.Blocks) == 0 {
		x.unsupported("no body: "+fn.String(), fn.Pos())
		return nil
	}
	for i, p := range fn.Params {
		if i < len(args) {
			v := args[i]
			if v.Ty == nil {
				v.Ty = p.Type()
			}
			fr.env[p] = v
			fr.names[p.Name()] = v
			fr.names[p.Name()+"@entry"] = v // the value the caller passed (loop annotations)
		}
	}
	for i, fv := range fn.FreeVars {
		if i < len(bindings) {
			fr.env[fv] = bindings[i]
			fr.names[fv.Name()] = bindings[i]
		}
	}
	return x.runBlock(fr, fn.Blocks[0], 0, st)
}

func (x *Run) val(fr *Frame, st *State, v ssa.Value) Val {
	switch c := v.(type) {
	case *ssa.Const:
		return x.constVal(c)
	case *ssa.Function:
		return Val{T: x.fnTerm(c), S: SInt, Ty: c.Type(), Clo: &Closure{Fn: c}}
	case *ssa.Global:
		el := c.Type().(*types.Pointer).Elem()
		if isStruct(el) {
			ref := x.d.constArr("globobj."+c.Pkg.Pkg.Path()+"."+c.Name(), SInt)
			x.d.raw("ax.globobj."+ref, fmt.Sprintf("(assert (> %s 0))", ref))
			return Val{T: ref, S: SInt, Ty: c.Type(), Addr: &Addr{Kind: AObj, Ref: ref, Ty: el}}
		}
		a := &Addr{Kind: AGlobal, Glob: c, Ty: el}
		return Val{T: x.ptrTerm(a), S: SInt, Ty: c.Type(), Addr: a}
	case *ssa.Builtin:
		return Val{T: "0", S: SInt, Ty: c.Type()}
	}
	if r, ok := fr.env[v]; ok {
		return r
	}
	// value not computed on this path (should not happen)
	x.unsupported(fmt.Sprintf("use of unevaluated value %s in %s", v.Name(), fr.fn.String()), v.Pos())
	return x.freshVal(st, "undef", v.Type())
}

func (x *Run) fnTerm(f *ssa.Function) string {
	c := x.d.constArr("fn."+f.String(), SInt)
	x.d.raw("ax.fn."+c, fmt.Sprintf("(assert (> %s 0))", c))
	return c
}

func (x *Run) constVal(c *ssa.Const) Val {
	ty := c.Type()
	s := x.d.sortOf(ty)
	if c.Value == nil {
		v := x.zeroVal(ty)
		v.MaybeNil = true
		return v
	}
	switch s {
	case SBool:
		if constant.BoolVal(c.Value) {
			return Val{T: "true", S: SBool, Ty: ty}
		}
		return Val{T: "false", S: SBool, Ty: ty}
	case SInt:
		if c.Value.Kind() == constant.Int {
			if n, ok := constant.Int64Val(c.Value); ok {
				return Val{T: intLit(n), S: SInt, Ty: ty}
			}
			if n, ok := constant.Uint64Val(c.Value); ok {
				return Val{T: fmt.Sprintf("%d", n), S: SInt, Ty: ty}
			}
		}
		if f, ok := constant.Float64Val(constant.ToFloat(c.Value)); ok {
			return Val{T: intLit(int64(f)), S: SInt, Ty: ty}
		}
	case SStr:
		return Val{T: x.d.lit(constant.StringVal(c.Value)), S: SStr, Ty: ty}
	case SReal:
		f, _ := constant.Float64Val(constant.ToFloat(c.Value))
		t := fmt.Sprintf("%f", f)
		if f < 0 {
			t = fmt.Sprintf("(- %f)", -f)
		}
		return Val{T: t, S: SReal, Ty: ty}
	}
	return x.zeroVal(ty)
}

func (x *Run) newPath() bool {
	x.mu.Lock()
	defer x.mu.Unlock()
	x.pathN++
	if x.pathN > x.maxPaths {
		x.pathsCut = true
		return false
	}
	return true
}

// enterBlock transfers control along the edge from -> to.
func (x *Run) enterBlock(fr *Frame, from, to *ssa.BasicBlock, st *State) []Outcome {
	if st.dead {
		return nil
	}
	if fr.stopAt != nil && to == fr.stopAt {
		return []Outcome{{st: st, stopped: true, stopFrom: from, stopEnv: fr.env}}
	}
	fr.prev = from
	li := x.loops(fr.fn)
	if from != nil {
		for h, lp := range li.byHeader {
			if fr.cut[h] && lp.blocks[from] && !lp.blocks[to] {
				if fr.leftFrom == nil {
					fr.leftFrom = map[*ssa.BasicBlock]*ssa.BasicBlock{}
				}
				fr.leftFrom[h] = from
			}
		}
	}
	if lp := li.byHeader[to]; lp != nil {
		return x.enterLoopHeader(fr, from, to, st, lp)
	}
	x.evalPhis(fr, from, to, st)
	return x.runBlock(fr, to, x.firstNonPhi(to), st)
}

func (x *Run) firstNonPhi(b *ssa.BasicBlock) int {
	for i, ins := range b.Instrs {
		if _, ok := ins.(*ssa.Phi); !ok {
			return i
		}
	}
	return len(b.Instrs)
}

func (x *Run) evalPhis(fr *Frame, from, to *ssa.BasicBlock, st *State) {
	idx := -1
	for i, p := range to.Preds {
		if p == from {
			idx = i
			break
		}
	}
	if idx < 0 {
		return
	}
	type pv struct {
		phi *ssa.Phi
		v   Val
	}
	var vals []pv
	for _, ins := range to.Instrs {
		phi, ok := ins.(*ssa.Phi)
		if !ok {
			break
		}
		vals = append(vals, pv{phi, x.val(fr, st, phi.Edges[idx])})
	}
	for _, p := range vals {
		v := p.v
		if v.Ty == nil || x.d.sortOf(p.phi.Type()) != v.S {
			v = x.coerce(st, v, p.phi.Type())
		}
		fr.env[p.phi] = v
		if p.phi.Comment != "" {
			fr.names[p.phi.Comment] = v
		}
	}
}

func (x *Run) coerce(st *State, v Val, ty types.Type) Val {
	s := x.d.sortOf(ty)
	if v.S == s {
		v.Ty = ty
		return v
	}
	if s == SIface && v.S != SIface {
		return x.box(st, v, ty)
	}
	return v
}

func (x *Run) runBlock(fr *Frame, b *ssa.BasicBlock, idx int, st *State) []Outcome {
	var outs []Outcome
	for i := idx; i < len(b.Instrs); i++ {
		if st.dead {
			return outs
		}
		x.stepN++
		if x.stepN > maxSteps {
			x.mu.Lock()
			x.pathsCut = true
			x.mu.Unlock()
			return outs
		}
		switch ins := b.Instrs[i].(type) {
		case *ssa.If:
			c := x.val(fr, st, ins.Cond)
			if c.T == "true" {
				if diagArms {
					st.trace = append(st.trace, x.branchLabel(ins, true))
				}
				return append(outs, x.enterBlock(fr, b, b.Succs[0], st)...)
			}
			if c.T == "false" {
				if diagArms {
					st.trace = append(st.trace, x.branchLabel(ins, false))
				}
				return append(outs, x.enterBlock(fr, b, b.Succs[1], st)...)
			}
			// the path condition already decides this branch (the same test was made
			// earlier on this path): follow the one feasible arm only
			{
				neg := not(c.T)
				known := 0
				for i := len(st.pc) - 1; i >= 0; i-- {
					pl := pcPlain(st.pc[i])
					if pl == c.T {
						known = 1
						break
					}
					if pl == neg {
						known = 2
						break
					}
				}
				if known == 1 {
					st.trace = append(st.trace, x.branchLabel(ins, true))
					return append(outs, x.enterBlock(fr, b, b.Succs[0], st)...)
				}
				if known == 2 {
					st.trace = append(st.trace, x.branchLabel(ins, false))
					return append(outs, x.enterBlock(fr, b, b.Succs[1], st)...)
				}
			}
			if mo, ok := x.tryMerge(fr, st, b, ins, c); ok {
				return append(outs, mo...)
			}
			// large units: ask the solver before forking (an arm whose path
			// condition is refuted is dropped; "unknown" keeps the arm)
			if (x.pathN > pruneAfterPaths || x.pruneAll) && x.pureDepth == 0 {
				if !x.armFeasible(st, c.T) {
					st.assumeK(not(c.T), 'c')
					st.trace = append(st.trace, x.branchLabel(ins, false))
					return append(outs, x.enterBlock(fr, b, b.Succs[1], st)...)
				}
				if !x.armFeasible(st, not(c.T)) {
					st.assumeK(c.T, 'c')
					st.trace = append(st.trace, x.branchLabel(ins, true))
					return append(outs, x.enterBlock(fr, b, b.Succs[0], st)...)
				}
			}
			if !x.newPath() {
				return outs
			}
			st2 := st.clone()
			fr2 := fr.clone()
			st.assumeK(c.T, 'c')
			st.trace = append(st.trace, x.branchLabel(ins, true))
			st2.assumeK(not(c.T), 'c')
			st2.trace = append(st2.trace, x.branchLabel(ins, false))
			outs = append(outs, x.enterBlock(fr, b, b.Succs[0], st)...)
			outs = append(outs, x.enterBlock(fr2, b, b.Succs[1], st2)...)
			return outs
		case *ssa.Jump:
			return append(outs, x.enterBlock(fr, b, b.Succs[0], st)...)
		case *ssa.Return:
			if !blockHasRunDefers(b) {
				x.loopExitChecks(fr, st, b)
			}
			var ret Val
			if len(ins.Results) == 1 {
				ret = x.val(fr, st, ins.Results[0])
				rt := fr.fn.Signature.Results().At(0).Type()
				ret = x.coerce(st, ret, rt)
			} else if len(ins.Results) > 1 {
				ret = Val{S: "Tuple", Ty: fr.fn.Signature.Results()}
				for k, r := range ins.Results {
					ret.Tup = append(ret.Tup, x.coerce(st, x.val(fr, st, r), fr.fn.Signature.Results().At(k).Type()))
				}
			}
			return append(outs, Outcome{st: st, ret: ret})
		case *ssa.Panic:
			pv := x.val(fr, st, ins.X)
			if !fr.underRecover() {
				x.oblige(st, "nopanic."+x.fnShort(fr.fn)+".explicit", "nopanic", "false", ins.Pos(), "explicit panic reachable")
				return outs
			}
			return append(outs, x.panicUnwind(fr, st, pv)...)
		case *ssa.RunDefers:
			if _, isRet := b.Instrs[len(b.Instrs)-1].(*ssa.Return); isRet {
				x.loopExitChecks(fr, st, b) // before the deferred calls run
			}
			sts := x.runDefers(fr, st)
			if len(sts) == 1 {
				st = sts[0].st
				if sts[0].panic {
					return append(outs, sts[0])
				}
				continue
			}
			for _, s := range sts {
				if s.panic {
					outs = append(outs, s)
					continue
				}
				outs = append(outs, x.runBlock(fr.clone(), b, i+1, s.st)...)
			}
			return outs
		case *ssa.Call:
			couts := x.doCall(fr, st, ins.Common(), ins)
			if len(couts) == 1 && !couts[0].panic {
				fr.env[ins] = x.named(couts[0].ret, ins.Type())
				st = couts[0].st
				continue
			}
			for _, co := range couts {
				fr2 := fr.clone()
				if co.panic {
					outs = append(outs, x.panicUnwind(fr2, co.st, co.pval)...)
					continue
				}
				fr2.env[ins] = x.named(co.ret, ins.Type())
				outs = append(outs, x.runBlock(fr2, b, i+1, co.st)...)
			}
			return outs
		case *ssa.Next:
			forks := x.doNext(fr, st, ins)
			for _, f := range forks {
				fr2 := fr.clone()
				fr2.env[ins] = f.ret
				outs = append(outs, x.runBlock(fr2, b, i+1, f.st)...)
			}
			return outs
		case *ssa.Select:
			forks := x.doSelect(fr, st, ins, &outs)
			for _, f := range forks {
				fr2 := fr.clone()
				fr2.env[ins] = f.ret
				outs = append(outs, x.runBlock(fr2, b, i+1, f.st)...)
			}
			return outs
		case *ssa.TypeAssert:
			forks := x.doTypeAssert(fr, st, ins, &outs)
			if len(forks) == 1 {
				fr.env[ins] = forks[0].ret
				st = forks[0].st
				continue
			}
			for _, f := range forks {
				fr2 := fr.clone()
				fr2.env[ins] = f.ret
				outs = append(outs, x.runBlock(fr2, b, i+1, f.st)...)
			}
			return outs
		default:
			x.exec(fr, st, b.Instrs[i], &outs)
		}
	}
	return outs
}

func (x *Run) named(v Val, ty types.Type) Val {
	if v.Ty == nil {
		v.Ty = ty
	}
	return v
}

func (x *Run) branchLabel(ins *ssa.If, taken bool) string {
	p := x.fset.Position(ins.Cond.Pos())
	lbl := fmt.Sprintf("%s:%d", shortFile(p.Filename), p.Line)
	if !ins.Cond.Pos().IsValid() {
		lbl = ins.Block().Comment
	}
	if taken {
		return lbl + ":T"
	}
	return lbl + ":F"
}

func shortFile(f string) string {
	if i := strings.LastIndex(f, "/"); i >= 0 {
		return f[i+1:]
	}
	return f
}

func (x *Run) fnShort(fn *ssa.Function) string {
	s := fn.String()
	s = strings.ReplaceAll(s, "github.com/fatedier/frp/", "")
	s = strings.ReplaceAll(s, "github.com/fatedier/", "")
	return s
}

// exec handles non-forking instructions.
func (x *Run) exec(fr *Frame, st *State, instr ssa.Instruction, outs *[]Outcome) {
	switch ins := instr.(type) {
	case *ssa.DebugRef:
		if id, ok := ins.Expr.(interface{ String() string }); ok && !ins.IsAddr {
			if v, ok2 := fr.env[ins.X]; ok2 {
				fr.names[id.String()] = v
			} else if _, isC := ins.X.(*ssa.Const); isC {
				fr.names[id.String()] = x.val(fr, st, ins.X)
			}
		}
	case *ssa.Alloc:
		el := ins.Type().(*types.Pointer).Elem()
		if isStruct(el) {
			ref := x.allocObj(st, el, true)
			fr.env[ins] = Val{T: ref, S: SInt, Ty: ins.Type(), Addr: &Addr{Kind: AObj, Ref: ref, Ty: el, Fresh: true}, Fresh: true}
		} else if arr, ok := el.Underlying().(*types.Array); ok {
			c := x.newCell(ins.Comment, el)
			st.cells[c] = Val{T: x.d.zero(el), S: x.d.sortOf(el), Ty: el}
			_ = arr
			a := &Addr{Kind: ACell, Cell: c, Ty: el}
			fr.env[ins] = Val{T: x.ptrTerm(a), S: SInt, Ty: ins.Type(), Addr: a}
		} else {
			c := x.newCell(ins.Comment, el)
			st.cells[c] = x.zeroVal(el)
			a := &Addr{Kind: ACell, Cell: c, Ty: el}
			fr.env[ins] = Val{T: x.ptrTerm(a), S: SInt, Ty: ins.Type(), Addr: a}
			if ins.Comment != "" {
				fr.names["&"+ins.Comment] = fr.env[ins]
			}
		}
	case *ssa.Store:
		a := x.addrOf(x.val(fr, st, ins.Addr))
		v := x.val(fr, st, ins.Val)
		el := ins.Addr.Type().Underlying().(*types.Pointer).Elem()
		v = x.coerce(st, v, el)
		x.checkDeref(fr, st, x.val(fr, st, ins.Addr), ins, outs)
		x.checkGuard(fr, st, a, true, ins)
		x.storeAddr(st, a, v, ins)
	case *ssa.UnOp:
		x.execUnOp(fr, st, ins, outs)
	case *ssa.BinOp:
		fr.env[ins] = x.binop(fr, st, ins.Op, x.val(fr, st, ins.X), x.val(fr, st, ins.Y), ins.Type(), ins, outs)
	case *ssa.FieldAddr:
		base := x.val(fr, st, ins.X)
		x.checkDeref(fr, st, base, ins, outs)
		a := x.addrOf(base)
		fr.env[ins] = x.fieldAddr(fr, st, a, ins.Field, ins.Type())
	case *ssa.Field:
		v := x.val(fr, st, ins.X)
		f := x.fieldOf(v, ins.Field)
		x.assumeType(st, f)
		fr.env[ins] = f
	case *ssa.IndexAddr:
		x.execIndexAddr(fr, st, ins, outs)
	case *ssa.Index:
		x.execIndex(fr, st, ins, outs)
	case *ssa.Lookup:
		x.execLookup(fr, st, ins, outs)
	case *ssa.MapUpdate:
		m := x.val(fr, st, ins.Map)
		k := x.val(fr, st, ins.Key)
		v := x.val(fr, st, ins.Value)
		mt := mapTypeOf(m.Ty)
		k = x.coerce(st, k, mt.Key())
		v = x.coerce(st, v, mt.Elem())
		x.checkValGuard(fr, st, m, true, ins)
		x.mayPanic(fr, st, not(eq(m.T, "0")), "nilmap", ins, outs)
		x.mapSet(st, m, k.T, v)
		if m.Origin != "" && !fr.inPure() {
			st.events = append(st.events, Event{Name: "mapset:" + m.Origin, Args: []Val{m, k, v}})
		}
	case *ssa.MakeMap:
		fr.env[ins] = x.makeMap(st, ins.Type())
	case *ssa.MakeSlice:
		ln := x.val(fr, st, ins.Len)
		cp := x.val(fr, st, ins.Cap)
		x.mayPanic(fr, st, and(fmt.Sprintf("(>= %s 0)", ln.T), fmt.Sprintf("(>= %s %s)", cp.T, ln.T)), "makeslice", ins, outs)
		s := x.d.sortOf(ins.Type())
		el := ins.Type().Underlying().(*types.Slice).Elem()
		fr.env[ins] = Val{T: x.mkSlice(s, x.d.constArray("Int", x.d.sortOf(el), x.d.zero(el)), ln.T), S: s, Ty: ins.Type()}
	case *ssa.MakeChan:
		sz := x.val(fr, st, ins.Size)
		x.mayPanic(fr, st, fmt.Sprintf("(>= %s 0)", sz.T), "makechan", ins, outs)
		st.nfresh++
		ref := intLit(int64(-st.nfresh))
		x.setArr(st, x.chClosedArr(ins.Type()), store(x.arr(st, x.chClosedArr(ins.Type())), ref, "false"))
		x.setArr(st, x.chCapArr(), store(x.arr(st, x.chCapArr()), ref, sz.T))
		fr.env[ins] = Val{T: ref, S: SInt, Ty: ins.Type(), Fresh: true}
	case *ssa.MakeClosure:
		fn := ins.Fn.(*ssa.Function)
		clo := &Closure{Fn: fn}
		for _, b := range ins.Bindings {
			clo.Bindings = append(clo.Bindings, x.val(fr, st, b))
		}
		st.nfresh++
		fr.env[ins] = Val{T: intLit(int64(-st.nfresh)), S: SInt, Ty: ins.Type(), Clo: clo}
		st.closures = append(st.closures, fr.env[ins])
	case *ssa.MakeInterface:
		v := x.val(fr, st, ins.X)
		if v.Ty == nil {
			v.Ty = ins.X.Type()
		}
		v.Ty = ins.X.Type()
		fr.env[ins] = x.box(st, v, ins.Type())
	case *ssa.ChangeType:
		v := x.val(fr, st, ins.X)
		v.Ty = ins.Type()
		fr.env[ins] = v
	case *ssa.ChangeInterface:
		v := x.val(fr, st, ins.X)
		v.Ty = ins.Type()
		fr.env[ins] = v
	case *ssa.Convert:
		fr.env[ins] = x.convert(st, x.val(fr, st, ins.X), ins.X.Type(), ins.Type())
	case *ssa.MultiConvert:
		fr.env[ins] = x.convert(st, x.val(fr, st, ins.X), ins.X.Type(), ins.Type())
	case *ssa.Extract:
		t := x.val(fr, st, ins.Tuple)
		if ins.Index < len(t.Tup) {
			fr.env[ins] = x.named(t.Tup[ins.Index], ins.Type())
		} else {
			fr.env[ins] = x.freshVal(st, "extract", ins.Type())
		}
	case *ssa.Slice:
		x.execSlice(fr, st, ins, outs)
	case *ssa.Range:
		m := x.val(fr, st, ins.X)
		it := &IterInfo{}
		if mt := mapTypeOf(m.Ty); mt != nil {
			mm := m
			it.Map = &mm
			it.MapTy = mt
			x.checkValGuard(fr, st, m, false, ins)
			// ghost: the set of keys this range statement has visited
			va := x.visitedArr(mt)
			ks := x.d.sortOf(mt.Key())
			x.setArr(st, va, store(x.arr(st, va), m.T, x.d.constArray(string(ks), SBool, "false")))
		} else {
			it.IsStr = true
		}
		fr.env[ins] = Val{T: "0", S: SInt, Ty: ins.Type(), Iter: it}
	case *ssa.Send:
		ch := x.val(fr, st, ins.Chan)
		closed := sel(x.arr(st, x.chClosedFor(ch, ins.Chan.Type())), ch.T)
		x.mayPanic(fr, st, not(closed), "send-on-closed", ins, outs)
		st.events = append(st.events, Event{Name: "send", Args: []Val{ch, x.val(fr, st, ins.X)}})
	case *ssa.Go:
		// spawned body is not executed on this path; arguments are evaluated
		var gargs []Val
		for _, a := range ins.Call.Args {
			gargs = append(gargs, x.val(fr, st, a))
		}
		st.events = append(st.events, Event{Name: "go:" + calleeName(&ins.Call), Args: gargs})
	case *ssa.Defer:
		d := Deferred{Call: &ins.Call, Site: ins}
		if !ins.Call.IsInvoke() {
			d.Fn = x.val(fr, st, ins.Call.Value)
		} else {
			d.Fn = x.val(fr, st, ins.Call.Value)
		}
		for _, a := range ins.Call.Args {
			d.Args = append(d.Args, x.val(fr, st, a))
		}
		fr.defers = append(fr.defers, d)
		if d.Fn.Clo != nil && fnCallsRecover(d.Fn.Clo.Fn) {
			fr.hasRec = true
		}
	case *ssa.SliceToArrayPointer:
		fr.env[ins] = x.freshVal(st, "s2ap", ins.Type())
	default:
		x.unsupported(fmt.Sprintf("instruction %T", instr), instr.Pos())
		if v, ok := instr.(ssa.Value); ok {
			fr.env[v] = x.freshVal(st, "unsup", v.Type())
		}
	}
}

func calleeName(cc *ssa.CallCommon) string {
	if cc.IsInvoke() {
		return cc.Method.FullName()
	}
	if f := cc.StaticCallee(); f != nil {
		return f.String()
	}
	if mc, ok := cc.Value.(*ssa.MakeClosure); ok {
		return mc.Fn.(*ssa.Function).String()
	}
	return "dynamic"
}

func fnCallsRecover(fn *ssa.Function) bool {
	for _, b := range fn.Blocks {
		for _, ins := range b.Instrs {
			if c, ok := ins.(*ssa.Call); ok {
				if bi, ok := c.Call.Value.(*ssa.Builtin); ok && bi.Name() == "recover" {
					return true
				}
			}
		}
	}
	return false
}

func (x *Run) fieldAddr(fr *Frame, st *State, a *Addr, field int, ptrTy types.Type) Val {
	var na *Addr
	switch a.Kind {
	case AObj:
		stt, _ := structOf(a.Ty)
		ft := stt.Field(field).Type()
		guard := a.Guard
		if g := x.spec.guardOf(a.Ty, field); g >= 0 && !a.Fresh {
			guard = x.lockKey(&Addr{Kind: AField, Ref: a.Ref, Ty: a.Ty, Field: g})
		}
		_ = ft
		na = &Addr{Kind: AField, Ref: a.Ref, Ty: a.Ty, Field: field, Guard: guard, Fresh: a.Fresh}
	case ACell, AArrCell, AGlobal, AElem, AField:
		c := *a
		c.Sel = append(append([]int(nil), a.Sel...), field)
		na = &c
	case APtr:
		// pointer to struct reached through an opaque pointer
		c := *a
		na = &c
		x.unsupported("field address through non-object pointer in "+fr.fn.String(), token.NoPos)
	}
	pt := x.ptrTerm(na)
	if na.Kind == AField && na.Guard == "" && fr.fn != nil && ptrReturned(fr.fn) {
		// the address of a field of a (non-nil, checked above) object is not nil;
		// stated only where field addresses leave the function
		st.assume(not(eq(pt, "0")))
	}
	return Val{T: pt, S: SInt, Ty: ptrTy, Addr: na}
}

// ptrReturned: the function returns a pointer (cheap filter that keeps path
// conditions free of facts nobody can observe).
func ptrReturned(fn *ssa.Function) bool {
	rs := fn.Signature.Results()
	for i := 0; i < rs.Len(); i++ {
		if _, ok := types.Unalias(rs.At(i).Type()).Underlying().(*types.Pointer); ok {
			return true
		}
	}
	return false
}

func (x *Run) lockKey(a *Addr) string { return x.ptrTerm(a) }

func (x *Run) execUnOp(fr *Frame, st *State, ins *ssa.UnOp, outs *[]Outcome) {
	v := x.val(fr, st, ins.X)
	switch ins.Op {
	case token.MUL:
		x.checkDeref(fr, st, v, ins, outs)
		a := x.addrOf(v)
		x.checkGuard(fr, st, a, false, ins)
		r := x.load(st, a, ins.Type())
		if r.Ty == nil {
			r.Ty = ins.Type()
		}
		fr.env[ins] = r
	case token.NOT:
		fr.env[ins] = Val{T: not(v.T), S: SBool, Ty: ins.Type()}
	case token.SUB:
		if v.S == SReal {
			fr.env[ins] = Val{T: fmt.Sprintf("(- %s)", v.T), S: SReal, Ty: ins.Type()}
		} else {
			fr.env[ins] = Val{T: fmt.Sprintf("(- %s)", v.T), S: SInt, Ty: ins.Type()}
		}
	case token.XOR:
		f := x.d.fun("bitnot", []Sort{SInt}, SInt)
		r := Val{T: app(f, v.T), S: SInt, Ty: ins.Type()}
		x.assumeType(st, r)
		fr.env[ins] = r
	case token.ARROW:
		ct := types.Unalias(ins.X.Type()).Underlying().(*types.Chan)
		x.interfere(fr, st)
		r := x.freshVal(st, "recv", ct.Elem())
		if !ins.CommaOk {
			// a plain receive completes on a closed channel too (zero value): the
			// event's result says which, although the code cannot see it
			ok := x.freshVal(st, "recvok", types.Typ[types.Bool])
			st.events = append(st.events, Event{Name: recvName(v), Args: []Val{v, r}, Ret: ok})
			closed := x.awaitClosed(st, v, ins.X.Type())
			st.assume(implies(not(closed), ok.T))
			st.assume(implies(not(ok.T), eq(r.T, x.d.zero(ct.Elem()))))
		}
		if ins.CommaOk {
			ok := x.freshVal(st, "recvok", types.Typ[types.Bool])
			st.events = append(st.events, Event{Name: recvName(v), Args: []Val{v, r}, Ret: ok})
			closed := x.awaitClosed(st, v, ins.X.Type())
			st.assume(implies(not(closed), ok.T))
			st.assume(implies(not(ok.T), eq(r.T, x.d.zero(ct.Elem()))))
			fr.env[ins] = Val{S: "Tuple", Ty: ins.Type(), Tup: []Val{r, ok}}
		} else {
			fr.env[ins] = r
		}
	default:
		x.unsupported("unop "+ins.Op.String(), ins.Pos())
		fr.env[ins] = x.freshVal(st, "unop", ins.Type())
	}
}

// checkDeref: nil-dereference obligation for nullable values.
func (x *Run) checkDeref(fr *Frame, st *State, v Val, site ssa.Instruction, outs *[]Outcome) {
	if v.Addr != nil && (v.Addr.Kind == ACell || v.Addr.Kind == AArrCell || v.Addr.Kind == AGlobal || v.Addr.Kind == AElem || v.Addr.Kind == AField || v.Addr.Fresh) {
		return
	}
	if v.MaybeNil {
		x.mayPanic(fr, st, not(eq(v.T, "0")), "nilderef", site, outs)
		return
	}
	// A-NONNIL: non-nullable pointers are assumed non-nil where dereferenced
	if v.S == SInt && v.T != "" && !strings.HasPrefix(v.T, "(- ") {
		st.assume(not(eq(v.T, "0")))
	}
}

func (x *Run) convert(st *State, v Val, from, to types.Type) Val {
	fs, ts := x.d.sortOf(from), x.d.sortOf(to)
	switch {
	case fs == ts && fs == SInt:
		lo, hi, ok := intRange(to)
		flo, fhi, fok := intRange(from)
		if ok && fok && (lo != flo || hi != fhi) {
			// narrowing / sign change
			if isUnsigned(to) {
				var mod string
				switch hi {
				case "255":
					mod = "256"
				case "65535":
					mod = "65536"
				case "4294967295":
					mod = "4294967296"
				default:
					mod = "18446744073709551616"
				}
				return Val{T: fmt.Sprintf("(mod %s %s)", v.T, mod), S: SInt, Ty: to}
			}
			if isUnsigned(from) || rangeWider(from, to) {
				f := x.d.fun("narrow."+shortTypeName(to), []Sort{SInt}, SInt)
				r := Val{T: app(f, v.T), S: SInt, Ty: to}
				st.assume(implies(fmt.Sprintf("(and (<= %s %s) (<= %s %s))", lo, v.T, v.T, hi), eq(r.T, v.T)))
				x.assumeType(st, r)
				return r
			}
		}
		v.Ty = to
		return v
	case fs == ts:
		v.Ty = to
		v.Fields = nil
		return v
	case fs == SInt && ts == SReal:
		return Val{T: fmt.Sprintf("(to_real %s)", v.T), S: SReal, Ty: to}
	case fs == SReal && ts == SInt:
		// Go truncates towards zero; SMT to_int is floor
		r := Val{T: fmt.Sprintf("(ite (>= %s 0.0) (to_int %s) (- (to_int (- %s))))", v.T, v.T, v.T), S: SInt, Ty: to}
		return r
	case ts == SStr && fs == SInt:
		f := x.d.fun("int2str", []Sort{SInt}, SStr)
		return Val{T: app(f, v.T), S: SStr, Ty: to}
	case ts == SStr:
		f := x.d.fun("bytes2str."+sortMangle(fs), []Sort{fs}, SStr)
		r := Val{T: app(f, v.T), S: SStr, Ty: to}
		if x.d.slices[fs] != "" {
			st.assume(eq(app("strlen", r.T), x.sliceLen(v)))
		}
		return r
	case fs == SStr:
		f := x.d.fun("str2bytes."+sortMangle(ts), []Sort{SStr}, ts)
		r := Val{T: app(f, v.T), S: ts, Ty: to}
		// the conversion is injective: converting back gives the string again
		if x.d.slices[ts] != "" {
			g := x.d.fun("bytes2str."+sortMangle(ts), []Sort{ts}, SStr)
			st.assume(eq(app(g, r.T), v.T))
		}
		if x.d.slices[ts] != "" {
			st.assume(eq(x.sliceLen(r), app("strlen", v.T)))
		}
		return r
	}
	return x.freshVal(st, "conv", to)
}

func rangeWider(from, to types.Type) bool {
	fb, ok1 := types.Unalias(from).Underlying().(*types.Basic)
	tb, ok2 := types.Unalias(to).Underlying().(*types.Basic)
	if !ok1 || !ok2 {
		return false
	}
	size := func(b *types.Basic) int {
		switch b.Kind() {
		case types.Int8, types.Uint8:
			return 1
		case types.Int16, types.Uint16:
			return 2
		case types.Int32, types.Uint32:
			return 4
		}
		return 8
	}
	return size(fb) > size(tb)
}

// armFeasible: false only when the solver refutes pc /\ cond (quantified
// assumptions are left out: fewer assumptions can only keep an arm alive).
func (x *Run) armFeasible(st *State, cond string) bool {
	var b strings.Builder
	for _, l := range strings.Split(x.d.preamble(), "\n") {
		if !strings.Contains(l, "(forall ") {
			b.WriteString(l)
			b.WriteString("\n")
		}
	}
	for _, c := range st.pc {
		pl := pcPlain(c)
		if pl == "false" {
			return false
		}
		if !strings.Contains(pl, "(forall ") {
			b.WriteString("(assert " + pl + ")\n")
		}
	}
	b.WriteString("(assert " + cond + ")\n")
	q := b.String()
	h := sha1.Sum([]byte(q))
	if v, ok := feasCache.Load(h); ok {
		return v.(bool)
	}
	r := solve(q, 2, false, []string{"z3-new"})
	ok := r.Status != "unsat"
	feasCache.Store(h, ok)
	return ok
}

var feasCache sync.Map

// returnsFromLoop: block b (holding a return) is reached directly from the
// loop's body - it is in the loop, or a block outside it whose predecessors (up
// to two steps back) are all in the loop.
func returnsFromLoop(lp *loop, b *ssa.BasicBlock, depth int) bool {
	if lp.blocks[b] {
		return true
	}
	if depth >= 2 || len(b.Preds) == 0 {
		return false
	}
	for _, p := range b.Preds {
		if !returnsFromLoop(lp, p, depth+1) {
			return false
		}
	}
	return true
}

// loopOwnExit: the header is the block in which go/ssa evaluates the loop's own
// continuation test (range over slice / map / channel, or the condition of a
// three-clause or while-style for); leaving the loop from there is the loop's
// normal end. A bare `for { … }` has its first body block as header.
func loopOwnExit(h *ssa.BasicBlock) bool {
	switch h.Comment {
	case "rangeindex.loop", "rangechan.loop", "rangeiter.loop", "for.loop":
		return true
	}
	return false
}

func blockHasRunDefers(b *ssa.BasicBlock) bool {
	for _, ins := range b.Instrs {
		if _, ok := ins.(*ssa.RunDefers); ok {
			return true
		}
	}
	return false
}

// loopExitChecks: a return from inside a loop that has an exit check
// (verif:loopexit), evaluated before the function's deferred calls run.
func (x *Run) loopExitChecks(fr *Frame, st *State, b *ssa.BasicBlock) {
	if fr.inPure() {
		return
	}
	li := x.loops(fr.fn)
	for _, lp := range li.byHeader {
		if fr.cut[lp.header] && returnsFromLoop(lp, b, 0) {
			// the loop's own end (range exhausted, channel closed, loop condition
			// false) is not a return from inside the loop
			if fr.leftFrom[lp.header] == lp.header && loopOwnExit(lp.header) {
				continue
			}
			if ann := x.spec.loopAnn(fr.fn, lp.ordinal); ann != nil && ann.Exit != nil {
				ea := &LoopAnn{Inv: ann.Exit, Args: ann.BodyArgs}
				x.checkLoopInvExtra(fr, st, lp, ea, "exit", fr.loopHead[lp.header])
			}
		}
	}
}

// recvName: receive events carry the field the channel was read from, so a
// contract can ask about the receives on one particular channel
// ("recv:H.server.Control.workConnCh"); the pattern "recv" matches them all.
func recvName(ch Val) string {
	if ch.Origin != "" {
		return "recv:" + ch.Origin
	}
	return "recv"
}
