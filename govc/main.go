package main

import (
	"crypto/sha1"
	"encoding/json"
	"flag"
	"fmt"
	"go/ast"
	"go/parser"
	"go/token"
	"go/types"
	"os"
	"os/exec"
	"path/filepath"
	"sort"
	"strconv"
	"strings"
	"sync"
	"sync/atomic"
	"time"

	"golang.org/x/tools/go/packages"
	"golang.org/x/tools/go/ssa"
	"golang.org/x/tools/go/ssa/ssautil"
)

type PropConfig struct {
	Pkgs []string `json:"pkgs"`
}

var (
	flagRepo       = flag.String("repo", "/repo", "repository root")
	flagVerif      = flag.String("verif", "/verif", "verif root")
	flagProp       = flag.String("prop", "", "property id")
	flagTier       = flag.String("tier", "quick", "quick|thorough")
	flagUnit       = flag.String("unit", "", "only units whose name contains this")
	flagDump       = flag.String("dump", "", "dump SMT queries of obligations whose name contains this into dir")
	flagPkgs       = flag.String("pkgs", "", "comma separated package patterns (overrides props.json)")
	flagTimeout    = flag.Int("timeout", 10, "solver timeout (s)")
	flagJSON       = flag.String("json", "", "write raw result json here")
	flagMaxPaths   = flag.Int("maxpaths", 40000, "path cap per unit")
	flagVerbose    = flag.Bool("v", false, "verbose")
	flagOverlay    = flag.String("overlay", "", "extra overlay json (mutants)")
	flagNoCover    = flag.Bool("nocover", false, "skip vacuity checks")
	flagEachSolver = flag.Bool("each-solver", false, "thorough: re-check every obligation on each solver")
)

type UnitResult struct {
	Name          string        `json:"name"`
	Kind          string        `json:"kind"` // contract | lemma | sweep
	Target        string        `json:"target,omitempty"`
	Props         []string      `json:"props"`
	Paths         int           `json:"paths"`
	PathsCut      bool          `json:"paths_cut,omitempty"`
	Obligations   []*OblResult  `json:"obligations"`
	Unsupported   []Unsupported `json:"unsupported,omitempty"`
	Cover         string        `json:"cover"`
	Inlined       []string      `json:"inlined,omitempty"`
	Opaque        []string      `json:"opaque,omitempty"`
	Assumed       []string      `json:"assumed,omitempty"`
	Trusted       []string      `json:"trusted_contracts,omitempty"`
	UsedContracts []string      `json:"used_contracts,omitempty"`
	Writes        []string      `json:"writes,omitempty"`
	WallMs        int64         `json:"wall_ms"`
	Pos           string        `json:"pos,omitempty"`
}

type OblResult struct {
	Name      string   `json:"name"`
	Kind      string   `json:"kind"`
	Instances int      `json:"instances"`
	Status    string   `json:"status"` // discharged | failed | undischarged
	Solver    string   `json:"solver,omitempty"`
	MaxMs     int64    `json:"max_ms"`
	Bytes     int      `json:"max_bytes"`
	Pos       string   `json:"pos,omitempty"`
	FailTrace []string `json:"fail_trace,omitempty"`
	Model     string   `json:"model,omitempty"`
	Raw       string   `json:"raw,omitempty"`
	Note      string   `json:"note,omitempty"`
	Goal      string   `json:"goal,omitempty"`
}

type RunResult struct {
	Prop             string         `json:"prop"`
	Tier             string         `json:"tier"`
	Units            []*UnitResult  `json:"units"`
	SpecErrors       []string       `json:"spec_errors,omitempty"`
	EachSolver       map[string]int `json:"each_solver,omitempty"`
	ContractFiles    []string       `json:"contract_files"`
	Overlaid         []string       `json:"contracts_overlaid,omitempty"`
	LoadMs           int64          `json:"load_ms"`
	WallMs           int64          `json:"wall_ms"`
	LoadErrors       []string       `json:"load_errors,omitempty"`
	DroppedContracts []string       `json:"dropped_contracts,omitempty"`
}

var extContractPkgs = map[string]bool{}

func main() {
	flag.Parse()
	initWork()
	code := realMain()
	cleanupWork()
	os.Exit(code)
}

func realMain() int {
	t0 := time.Now()
	res := &RunResult{Prop: *flagProp, Tier: *flagTier}
	var patterns []string
	if *flagPkgs != "" {
		patterns = strings.Split(*flagPkgs, ",")
	} else {
		b, err := os.ReadFile(filepath.Join(*flagVerif, "props.json"))
		if err != nil {
			fmt.Fprintln(os.Stderr, "props.json:", err)
			return 2
		}
		cfg := map[string]PropConfig{}
		if err := json.Unmarshal(b, &cfg); err != nil {
			fmt.Fprintln(os.Stderr, "props.json:", err)
			return 2
		}
		patterns = cfg[*flagProp].Pkgs
	}
	if len(patterns) == 0 {
		fmt.Fprintln(os.Stderr, "no packages for property", *flagProp)
		return 2
	}
	// overlay: contract mirror files missing from the repo
	overlay := map[string][]byte{}
	mirror := filepath.Join(*flagVerif, "contracts")
	filepath.Walk(mirror, func(p string, info os.FileInfo, err error) error {
		if err != nil || info.IsDir() || !strings.HasSuffix(p, ".go") {
			return nil
		}
		rel, _ := filepath.Rel(mirror, p)
		dst := filepath.Join(*flagRepo, rel)
		b, _ := os.ReadFile(p)
		if cur, err := os.ReadFile(dst); err != nil || string(cur) != string(b) {
			// the mirror in /verif/contracts is the contract text of record
			overlay[dst] = b
			res.Overlaid = append(res.Overlaid, rel)
		}
		return nil
	})
	// contracts on dependencies: /verif/ext_contracts/<import path>/*.go are laid
	// over the package directory in the module cache (nothing is written there)
	extPkgs := map[string]bool{}
	extRoot := filepath.Join(*flagVerif, "ext_contracts")
	if _, err := os.Stat(extRoot); err == nil {
		filepath.Walk(extRoot, func(p string, info os.FileInfo, err error) error {
			if err != nil || info.IsDir() || !strings.HasSuffix(p, ".go") {
				return nil
			}
			rel, _ := filepath.Rel(extRoot, filepath.Dir(p))
			cmd := exec.Command("go", "list", "-f", "{{.Dir}}", rel)
			cmd.Dir = *flagRepo
			cmd.Env = append(os.Environ(), "GOFLAGS=-mod=mod", "GOPROXY=off", "GOSUMDB=off", "GOTOOLCHAIN=local")
			out, err := cmd.Output()
			dir := strings.TrimSpace(string(out))
			if err != nil || dir == "" {
				fmt.Fprintln(os.Stderr, "ext contract for a package outside the build list:", rel)
				return nil
			}
			b, _ := os.ReadFile(p)
			overlay[filepath.Join(dir, filepath.Base(p))] = b
			extPkgs[rel] = true
			res.Overlaid = append(res.Overlaid, "ext:"+rel)
			return nil
		})
	}
	extContractPkgs = extPkgs
	if *flagOverlay != "" {
		b, err := os.ReadFile(*flagOverlay)
		if err == nil {
			m := map[string]string{}
			json.Unmarshal(b, &m)
			for k, v := range m {
				c, _ := os.ReadFile(v)
				overlay[k] = c
			}
		}
	}
	cfg := &packages.Config{
		Mode:       packages.LoadAllSyntax,
		Dir:        *flagRepo,
		BuildFlags: []string{"-tags=verif"},
		Overlay:    overlay,
		Env:        append(os.Environ(), "GOFLAGS=-mod=mod", "GOPROXY=off", "GOSUMDB=off", "GOTOOLCHAIN=local"),
	}
	if len(extPkgs) > 0 {
		// files laid over a module-cache directory are only seen when the go
		// command lists that directory itself instead of using its module index
		cfg.Env = append(cfg.Env, "GODEBUG=goindex=0")
	}
	pkgs, err := packages.Load(cfg, patterns...)
	if err != nil {
		fmt.Fprintln(os.Stderr, "load:", err)
		return 2
	}
	collect := func() []packages.Error {
		var errs []packages.Error
		packages.Visit(pkgs, nil, func(p *packages.Package) {
			if strings.HasPrefix(p.PkgPath, frpPrefix) {
				errs = append(errs, p.Errors...)
			}
		})
		return errs
	}
	// A contract function that no longer type-checks against the code it
	// specifies (the target's signature changed, a field it names is gone): the
	// code itself compiles, so this is not a broken tree. Such contract
	// functions are dropped (their obligations "can no longer be generated",
	// which the lock file turns into a violation of exactly those obligations)
	// and everything else is verified as usual.
	for round := 0; round < 4; round++ {
		errs := collect()
		if len(errs) == 0 {
			break
		}
		changed := false
		onlyContracts := true
		for _, e := range errs {
			if file, _ := errPos(e.Pos); filepath.Base(file) != "zz_contracts_verif.go" {
				onlyContracts = false
			}
		}
		if !onlyContracts {
			break // the code itself does not compile: a broken tree
		}
		for _, e := range errs {
			file, line := errPos(e.Pos)
			src, ok := overlay[file]
			if !ok {
				src, _ = os.ReadFile(file)
			}
			ns, name, ok := dropContractAt(src, line, e.Msg)
			if !ok {
				continue
			}
			overlay[file] = ns
			changed = true
			if name != "" {
				res.DroppedContracts = append(res.DroppedContracts, fmt.Sprintf("%s (%s): %s", name, strings.TrimPrefix(file, *flagRepo+"/"), e.Msg))
				fmt.Fprintf(os.Stderr, "contract function %s no longer type-checks against the code and is dropped: %s\n", name, e.Msg)
			}
			break // line numbers of this file changed: reload before the next repair
		}
		if !changed {
			break
		}
		cfg.Overlay = overlay
		pkgs, err = packages.Load(cfg, patterns...)
		if err != nil {
			fmt.Fprintln(os.Stderr, "load:", err)
			return 2
		}
	}
	for _, e := range collect() {
		res.LoadErrors = append(res.LoadErrors, e.Error())
	}
	if len(res.LoadErrors) > 0 {
		for _, e := range res.LoadErrors {
			fmt.Fprintln(os.Stderr, "load error:", e)
		}
		writeJSON(res)
		return 3
	}
	prog, _ := ssautil.AllPackages(pkgs, ssa.GlobalDebug|ssa.InstantiateGenerics)
	prog.Build()
	allFns := map[string]*ssa.Function{}
	for fn := range ssautil.AllFunctions(prog) {
		allFns[fn.String()] = fn
	}
	// methods of frp types may be unreachable from AllFunctions roots: add explicitly
	for _, p := range prog.AllPackages() {
		for _, m := range p.Members {
			switch m := m.(type) {
			case *ssa.Function:
				allFns[m.String()] = m
				for _, an := range m.AnonFuncs {
					allFns[an.String()] = an
				}
			case *ssa.Type:
				for _, t := range []interface{ String() string }{} {
					_ = t
				}
				addMethods(prog, m, allFns)
			}
		}
	}
	res.LoadMs = time.Since(t0).Milliseconds()
	db := buildSpecDB(prog, pkgs, allFns)
	res.SpecErrors = db.errors
	for _, e := range db.errors {
		fmt.Fprintln(os.Stderr, "spec error:", e)
	}
	for _, f := range db.files {
		res.ContractFiles = append(res.ContractFiles, strings.TrimPrefix(f, *flagRepo+"/"))
	}

	timeout := *flagTimeout
	if *flagTier == "thorough" {
		timeout *= 3
	}
	// units for this property
	type unit struct {
		con *Contract
		sw  *Sweep
		nb  *Sweep
	}
	var units []unit
	hasProp := func(ps []string) bool {
		if *flagProp == "" {
			return true
		}
		for _, p := range ps {
			for _, q := range strings.Split(p, ",") {
				if q == *flagProp {
					return true
				}
			}
		}
		return false
	}
	for _, c := range db.units {
		if c.Trusted || (c.Target == nil && c.Sig != nil && len(c.Impls) == 0) {
			continue
		}
		if c.Thorough && *flagTier != "thorough" {
			continue
		}
		if hasProp(c.Props) && strings.Contains(c.Fn.Name(), *flagUnit) {
			units = append(units, unit{con: c})
		}
	}
	{
		// unit names key obligations and frames: two contract functions of the
		// same name in one run would shadow each other
		seenNames := map[string]string{}
		for _, u := range units {
			n := u.con.Fn.Name()
			if prev, dup := seenNames[n]; dup {
				res.SpecErrors = append(res.SpecErrors, fmt.Sprintf("two contract functions named %s (%s and %s)", n, prev, u.con.Fn.String()))
			}
			seenNames[n] = u.con.Fn.String()
		}
	}
	for _, s := range db.sweeps {
		if hasProp(s.Props) && strings.Contains(s.Name, *flagUnit) {
			units = append(units, unit{sw: s})
		}
	}
	for _, s := range db.noblock {
		if hasProp(s.Props) && strings.Contains(s.Name, *flagUnit) {
			units = append(units, unit{nb: s})
		}
	}
	closable := map[string]bool{}
	closeSites = map[string][]string{}
	for _, fn := range allFns {
		if !strings.HasPrefix(pkgPathOf(fn), frpPrefix) {
			continue
		}
		for _, b := range fn.Blocks {
			for _, ins := range b.Instrs {
				var cc *ssa.CallCommon
				switch c := ins.(type) {
				case *ssa.Call:
					cc = &c.Call
				case *ssa.Defer:
					cc = &c.Call
				case *ssa.Go:
					cc = &c.Call
				}
				if cc == nil {
					continue
				}
				if bi, ok := cc.Value.(*ssa.Builtin); ok && bi.Name() == "close" && len(cc.Args) == 1 {
					if ct, ok := cc.Args[0].Type().Underlying().(*types.Chan); ok {
						// closing a channel made in the same function (and not stored into a field) closes no field's channel
						if mc, isMake := cc.Args[0].(*ssa.MakeChan); isMake {
							stored := false
							for _, r := range *mc.Referrers() {
								if st, ok := r.(*ssa.Store); ok && st.Val == ssa.Value(mc) {
									if _, ok := st.Addr.(*ssa.FieldAddr); ok {
										stored = true
									}
								}
							}
							if !stored {
								continue
							}
						}
						// closing a channel loaded directly from a struct field marks that field only
						if ld, isLoad := cc.Args[0].(*ssa.UnOp); isLoad {
							if fa, isFA := ld.X.(*ssa.FieldAddr); isFA {
								pt := fa.X.Type().Underlying().(*types.Pointer).Elem()
								closable["field:"+fieldArrayName(pt, fa.Field)] = true
								closeSites[fieldArrayName(pt, fa.Field)] = append(closeSites[fieldArrayName(pt, fa.Field)], fn.String())
								continue
							}
						}
						if localMadeChan(cc.Args[0], fn, 0) {
							continue
						}
						closable[typeKey(ct.Elem())] = true
					}
				}
			}
		}
	}
	// fields some statement of the loaded frp packages assigns outside the
	// construction of their object (a store through a pointer that is not an
	// allocation of the same function, or the field's address handed to a call):
	// at a blocking receive another goroutine may have assigned them
	var mutFields []mutField
	{
		seenMF := map[string]bool{}
		note := func(fa *ssa.FieldAddr) {
			// walk to the outermost field reached through a pointer value
			for {
				switch inner := fa.X.(type) {
				case *ssa.FieldAddr:
					fa = inner
					continue
				case *ssa.IndexAddr:
					if in2, ok := inner.X.(*ssa.FieldAddr); ok {
						fa = in2
						continue
					}
				}
				break
			}
			if _, isAlloc := fa.X.(*ssa.Alloc); isAlloc {
				return
			}
			pt, ok := fa.X.Type().Underlying().(*types.Pointer)
			if !ok {
				return
			}
			if _, ok := structOf(pt.Elem()); !ok {
				return
			}
			k := fieldArrayName(pt.Elem(), fa.Field)
			if !strings.HasPrefix(typeKey(pt.Elem()), frpPrefix) || seenMF[k] {
				return
			}
			seenMF[k] = true
			mutFields = append(mutFields, mutField{pt.Elem(), fa.Field})
		}
		for _, fn := range allFns {
			if !strings.HasPrefix(pkgPathOf(fn), frpPrefix) || strings.HasPrefix(fn.Name(), "verif") || strings.Contains(fn.String(), "/verif.") {
				continue
			}
			if fn.Pos().IsValid() && strings.HasSuffix(prog.Fset.Position(fn.Pos()).Filename, "_verif.go") {
				continue
			}
			for _, b := range fn.Blocks {
				for _, ins := range b.Instrs {
					switch c := ins.(type) {
					case *ssa.Store:
						switch a := c.Addr.(type) {
						case *ssa.FieldAddr:
							note(a)
						case *ssa.IndexAddr:
							if fa, ok := a.X.(*ssa.FieldAddr); ok {
								note(fa)
							}
						}
					case ssa.CallInstruction:
						cc := c.Common()
						if sf := cc.StaticCallee(); sf != nil && (strings.HasPrefix(sf.String(), "(*sync.") && !strings.HasPrefix(sf.String(), "(*sync/atomic")) {
							continue
						}
						for _, a := range cc.Args {
							if fa, ok := a.(*ssa.FieldAddr); ok {
								if st, isSt := structOf(fa.X.Type().Underlying().(*types.Pointer).Elem()); isSt {
									ft := st.Field(fa.Field).Type()
									if strings.HasPrefix(ft.String(), "sync.") && !strings.HasPrefix(ft.String(), "sync/atomic") {
										continue
									}
								}
								note(fa)
							}
						}
					}
				}
			}
		}
	}
	// channels somebody sends on (same granularity as "closable"): a receive from
	// a channel nobody sends on completes only because the channel was closed
	sendable := map[string]bool{}
	noteSend := func(ch ssa.Value, fn *ssa.Function) {
		ct, ok := ch.Type().Underlying().(*types.Chan)
		if !ok {
			return
		}
		if ld, isLoad := ch.(*ssa.UnOp); isLoad {
			if fa, isFA := ld.X.(*ssa.FieldAddr); isFA {
				pt := fa.X.Type().Underlying().(*types.Pointer).Elem()
				sendable["field:"+fieldArrayName(pt, fa.Field)] = true
				return
			}
		}
		if localMadeChan(ch, fn, 0) {
			return
		}
		if _, isMake := ch.(*ssa.MakeChan); isMake {
			return
		}
		sendable[typeKey(ct.Elem())] = true
	}
	for _, fn := range allFns {
		if !strings.HasPrefix(pkgPathOf(fn), frpPrefix) {
			continue
		}
		for _, b := range fn.Blocks {
			for _, ins := range b.Instrs {
				switch c := ins.(type) {
				case *ssa.Send:
					noteSend(c.Chan, fn)
				case *ssa.Select:
					for _, sst := range c.States {
						if sst.Dir == types.SendOnly {
							noteSend(sst.Chan, fn)
						}
					}
				}
			}
		}
	}

	if *flagVerbose {
		fmt.Printf("closable chan elem types: %v\n", sortedKeys(closable))
		fmt.Printf("sendable chans: %v\n", sortedKeys(sendable))
	}
	for _, u := range units {
		ut0 := time.Now()
		x := &Run{prog: prog, fset: prog.Fset, d: newDecls(), spec: db, arrSorts: map[string]Sort{}, arrRefEl: map[string]bool{}, arrSliceRefEl: map[string]string{}, libFieldArr: map[string]bool{}, sliceWriteCache: map[*ssa.Function]bool{}, maxPaths: *flagMaxPaths, timeout: timeout, maxDepth: 6, trusted: map[string]bool{}, modCache: map[*ssa.Function]*ModSet{}, inlined: map[string]bool{}, opaque: map[string]bool{}, closable: closable, sendable: sendable, mutFields: mutFields, mapZero: map[string]string{}, ctxInner: map[string]Val{}}
		ur := &UnitResult{}
		var finals []*State
		if u.con != nil {
			x.unit = u.con.Fn.Name()
			x.kindFilter = u.con.Kinds
			x.pruneAll = u.con.Prune
			ur.Name = x.unit
			ur.Kind = "contract"
			if u.con.Lemma {
				ur.Kind = "lemma"
			}
			ur.Target = strings.ReplaceAll(u.con.TargetName, frpPrefix+"/", "")
			ur.Props = u.con.Props
			ur.Pos = strings.TrimPrefix(u.con.Pos, *flagRepo+"/")
			finals = x.verifyContract(u.con)
			if u.con.Target != nil && !u.con.Lemma && strings.HasPrefix(pkgPathOf(u.con.Target), frpPrefix) {
				x.checkGoShare(u.con.Target)
			}
		} else if u.nb != nil && u.nb.CloseField != "" {
			// closed-only-by: every close of this field's channel in the loaded frp
			// packages lies in one of the named functions (one closer: a second
			// close site is a "close of closed channel" waiting for its schedule)
			x.unit = "closers:" + u.nb.CloseField
			ur.Name = x.unit
			ur.Kind = "structural"
			ur.Target = u.nb.CloseField
			ur.Props = u.nb.Props
			var foreign []string
			for _, site := range closeSites[u.nb.CloseField] {
				ok := false
				for _, a := range u.nb.CloseBy {
					if site == a || strings.HasPrefix(site, a+"$") {
						ok = true
					}
				}
				if !ok {
					foreign = append(foreign, site)
				}
			}
			sort.Strings(foreign)
			x.obligeStatic(newState(), "chan."+u.nb.CloseField+".closed-only-by-its-owner", "structural", len(foreign) == 0 && len(closeSites[u.nb.CloseField]) > 0, token.NoPos, "channel also closed in: "+strings.Join(foreign, ", "))
			finals = []*State{newState()}
		} else if u.nb != nil {
			x.unit = "noblock:" + x.fnShort(u.nb.Target)
			ur.Name = x.unit
			ur.Kind = "structural"
			ur.Target = x.fnShort(u.nb.Target)
			ur.Props = u.nb.Props
			x.checkNoBlock(u.nb.Target, u.nb.Recv)
			finals = []*State{newState()}
		} else {
			x.unit = "sweep:" + x.fnShort(u.sw.Target)
			ur.Name = x.unit
			ur.Kind = "sweep"
			ur.Target = x.fnShort(u.sw.Target)
			ur.Props = u.sw.Props
			x.kindFilter = u.sw.Kinds
			finals = x.verifySweep(u.sw)
		}
		// every mutex taken by the function is released again when it returns
		// (a lock left held wedges the next caller for good)
		if u.con == nil || !u.con.Lemma {
			for _, f := range finals {
				var leaked []string
				for k, m := range f.held {
					if m != 0 && f.ghost["assumedheld:"+k] == "" {
						if n := lockNameOf(x, k); n != "" {
							leaked = append(leaked, n)
						} else {
							leaked = append(leaked, k)
						}
					}
				}
				sort.Strings(leaked)
				goal := "true"
				if len(leaked) > 0 {
					goal = "false"
				}
				x.oblige(f, "lock."+ur.Name+".released-at-return", "lock", goal, token.NoPos, "mutex still held when the function returns: "+strings.Join(leaked, " "))
			}
		}
		x.wg.Wait()
		ur.Paths = x.pathN + 1
		ur.PathsCut = x.pathsCut
		ur.Unsupported = x.unsup
		ur.Inlined = sortedKeys(x.inlined)
		ur.Opaque = sortedKeys(x.opaque)
		ur.Assumed = x.assumed
		for k, v := range x.trusted {
			if v {
				ur.Trusted = append(ur.Trusted, k)
			} else {
				ur.UsedContracts = append(ur.UsedContracts, k)
			}
		}
		sort.Strings(ur.Trusted)
		sort.Strings(ur.UsedContracts)
		// vacuity: some complete path must be satisfiable
		ur.Cover = "skipped"
		if !*flagNoCover {
			ur.Cover = coverCheck(x, finals)
			if ur.Cover != "sat" && *flagDump != "" && len(finals) > 0 {
				os.MkdirAll(*flagDump, 0o755)
				var b strings.Builder
				b.WriteString("(set-option :produce-unsat-cores true)\n")
				b.WriteString(x.d.preamble())
				for i, c := range finals[0].pc {
					b.WriteString(fmt.Sprintf("(assert (! %s :named a%d))\n", pcPlain(c), i))
				}
				b.WriteString("(check-sat)\n(get-unsat-core)\n")
				os.WriteFile(filepath.Join(*flagDump, "final0.smt2"), []byte(b.String()), 0o644)
			}
		}
		if u.con != nil && !u.con.Lemma {
			ur.Writes = feasibleWrites(x, finals)
			// a declared frame (verif:modifies) is an obligation of the function,
			// not only an assumption of its callers
			if u.con.Modifies != nil && !u.con.Trusted && (u.con.Target != nil || len(u.con.Impls) > 0) {
				decl := map[string]bool{}
				for _, m := range u.con.Modifies {
					decl[m] = true
				}
				if !decl["*"] {
					var outside []string
					for _, k := range ur.Writes {
						ok := decl[k]
						for d := range decl {
							if strings.HasSuffix(d, ".") && strings.HasPrefix(k, d) {
								ok = true
							}
						}
						if !ok {
							outside = append(outside, k)
						}
					}
					x.obligeStatic(newState(), "frame."+ur.Name+".declared", "frame", len(outside) == 0, u.con.Fn.Pos(), "writes outside the declared modifies set: "+strings.Join(outside, " "))
				}
			}
		}
		if os.Getenv("GOVC_DEADARMS") != "" {
			deadArms(x, ur.Name, finals, x.obls)
		}
		vac := vacuousObligations(x, x.obls)
		ur.Obligations = groupObligations(x.obls)
		for _, g := range ur.Obligations {
			if vac[g.Name] && g.Status == "discharged" {
				g.Status = "undischarged"
				g.Solver = "vacuity"
				g.Note = "vacuous: no satisfiable path reaches this obligation (every path condition under which it was generated is contradictory)"
			}
		}
		if ur.PathsCut {
			// the path / step budget ran out: the unexplored paths generated no
			// obligations, so nothing is concluded for this unit
			ur.Obligations = append(ur.Obligations, &OblResult{Name: "paths." + ur.Name + ".explored", Kind: "paths", Instances: 1, Status: "undischarged", Solver: "budget", Note: fmt.Sprintf("path budget exhausted after %d paths: exploration incomplete", ur.Paths)})
		}
		if *flagDump != "" {
			os.MkdirAll(*flagDump, 0o755)
			for i, ob := range x.obls {
				if strings.Contains(ob.Name, *flagDump) || *flagDump == "all" || true {
					if ob.body != "" && (ob.Result.Status != "unsat") {
						os.WriteFile(filepath.Join(*flagDump, fmt.Sprintf("%s.%d.smt2", sanitize(ob.Name), i)), []byte(ob.body+"(check-sat)\n(get-model)\n"), 0o644)
					}
				}
			}
		}
		ur.WallMs = time.Since(ut0).Milliseconds()
		res.Units = append(res.Units, ur)
		if *flagVerbose {
			printUnit(ur)
		}
	}
	// lock order over the whole run: an edge A -> B is an obligation that B
	// never (transitively) leads back to A
	if len(lockEdges) > 0 {
		adj := map[string][]string{}
		for _, e := range lockEdges {
			adj[e.From] = append(adj[e.From], e.To)
		}
		reach := func(from, to string) bool {
			seen := map[string]bool{}
			stack := []string{from}
			for len(stack) > 0 {
				n := stack[len(stack)-1]
				stack = stack[:len(stack)-1]
				if n == to {
					return true
				}
				if seen[n] {
					continue
				}
				seen[n] = true
				stack = append(stack, adj[n]...)
			}
			return false
		}
		ur := &UnitResult{Name: "lock-order", Kind: "sweep", Props: []string{*flagProp}, Cover: "skipped"}
		for _, k := range sortedKeys(lockEdges) {
			e := lockEdges[k]
			ok := !reach(e.To, e.From)
			st := "discharged"
			if !ok {
				st = "failed"
			}
			ur.Obligations = append(ur.Obligations, &OblResult{Name: "lockorder." + e.From + "->" + e.To, Kind: "lock", Instances: 1, Status: st, Solver: "syntactic", Pos: e.Pos, Note: "mutex order: " + e.To + " is taken while " + e.From + " is held (in " + e.Fn + "); the reverse order must not occur anywhere"})
		}
		res.Units = append(res.Units, ur)
		if *flagVerbose {
			printUnit(ur)
		}
	}
	if *flagEachSolver {
		res.EachSolver = eachSolverRuns
	}
	res.WallMs = time.Since(t0).Milliseconds()
	writeJSON(res)
	return 0
}

func addMethods(prog *ssa.Program, t *ssa.Type, all map[string]*ssa.Function) {
	for _, ty := range []interface{}{t.Type()} {
		_ = ty
	}
	ms := prog.MethodSets.MethodSet(t.Type())
	for i := 0; i < ms.Len(); i++ {
		if fn := prog.MethodValue(ms.At(i)); fn != nil {
			all[fn.String()] = fn
			for _, an := range fn.AnonFuncs {
				all[an.String()] = an
			}
		}
	}
	pms := prog.MethodSets.MethodSet(typesNewPointer(t))
	for i := 0; i < pms.Len(); i++ {
		if fn := prog.MethodValue(pms.At(i)); fn != nil {
			all[fn.String()] = fn
			for _, an := range fn.AnonFuncs {
				all[an.String()] = an
			}
		}
	}
}

func writeJSON(res *RunResult) {
	b, _ := json.MarshalIndent(res, "", " ")
	if *flagJSON != "" {
		os.WriteFile(*flagJSON, b, 0o644)
	} else if !*flagVerbose {
		os.Stdout.Write(b)
	}
}

func printUnit(u *UnitResult) {
	defer func() { _ = recover() }()
	fmt.Printf("== %s [%s] target=%s paths=%d cover=%s wall=%dms\n", u.Name, u.Kind, u.Target, u.Paths, u.Cover, u.WallMs)
	for _, o := range u.Obligations {
		fmt.Printf("   %-12s %-70s x%d %s %dms %s\n", o.Status, o.Name, o.Instances, o.Solver, o.MaxMs, o.Note)
		if o.Status != "discharged" {
			fmt.Printf("       pos=%s trace=%v\n", o.Pos, o.FailTrace)
			if o.Model != "" {
				fmt.Printf("       model: %s\n", truncate(o.Model, 600))
			}
		}
	}
	for _, us := range u.Unsupported {
		fmt.Printf("   UNSUPPORTED %s (%s)\n", us.What, us.Pos)
	}
	if len(u.Opaque) > 0 {
		fmt.Printf("   opaque: %v\n", u.Opaque)
	}
}

// vacuousObligations: names of functional obligations (post, pre, lemma, inv,
// loop) none of whose instances was generated under a satisfiable path
// condition. Such an obligation is "proved" by a contradiction - typically an
// assumption imported from a callee's contract that cannot hold - and must not
// count as discharged.
func vacuousObligations(x *Run, obls []*Obligation) map[string]bool {
	byName := map[string][]*Obligation{}
	for _, ob := range obls {
		switch ob.Kind {
		case "post", "pre", "lemma", "inv", "loop":
			byName[ob.Name] = append(byName[ob.Name], ob)
		}
	}
	pre := ""
	for _, l := range strings.Split(x.d.preamble(), "\n") {
		if !strings.Contains(l, "(forall ") {
			pre += l + "\n"
		}
	}
	res := map[string]bool{}
	var mu sync.Mutex
	var wg sync.WaitGroup
	sem := make(chan struct{}, 16)
	memo := sync.Map{} // pc signature -> status
	for name, list := range byName {
		wg.Add(1)
		go func(name string, list []*Obligation) {
			defer wg.Done()
			sem <- struct{}{}
			defer func() { <-sem }()
			for i, ob := range list {
				if i >= 24 {
					return // many instances, none decided contradictory so far: not flagged
				}
				dead := false
				var b strings.Builder
				b.WriteString(pre)
				for _, c := range ob.pcRef {
					pl := pcPlain(c)
					if pl == "false" {
						dead = true
						break
					}
					if !strings.Contains(pl, "(forall ") {
						b.WriteString("(assert " + pl + ")\n")
					}
				}
				if dead {
					continue
				}
				q := b.String()
				h := sha1.Sum([]byte(q))
				var st string
				if v, ok := memo.Load(h); ok {
					st = v.(string)
				} else {
					r := solve(q, 3, false, []string{"z3-new"})
					st = r.Status
					memo.Store(h, st)
				}
				if st != "unsat" {
					return // reachable (or undecided): not vacuous
				}
				if d := os.Getenv("GOVC_DUMP_VAC"); d != "" {
					os.WriteFile(filepath.Join(d, strings.NewReplacer("/", "_", "*", "_", "(", "_", ")", "_").Replace(name)+fmt.Sprintf(".%d.smt2", i)), []byte(q+"(check-sat)\n"), 0o644)
				}
			}
			mu.Lock()
			res[name] = true
			mu.Unlock()
		}(name, list)
	}
	wg.Wait()
	return res
}

func groupObligations(obls []*Obligation) []*OblResult {
	m := map[string]*OblResult{}
	var order []string
	for _, ob := range obls {
		g := m[ob.Name]
		if g == nil {
			g = &OblResult{Name: ob.Name, Kind: ob.Kind, Status: "discharged", Pos: ob.Pos, Note: ob.Note}
			m[ob.Name] = g
			order = append(order, ob.Name)
		}
		g.Instances++
		var st string
		if ob.Static {
			if ob.StaticOK {
				st = "discharged"
				if g.Solver == "" {
					g.Solver = "syntactic"
				}
			} else {
				st = "failed"
			}
		} else {
			switch ob.Result.Status {
			case "unsat":
				st = "discharged"
				g.Solver = ob.Result.Solver
			case "sat":
				st = "failed"
			default:
				st = "undischarged"
			}
			if ob.Result.Ms > g.MaxMs {
				g.MaxMs = ob.Result.Ms
			}
			if ob.Result.Bytes > g.Bytes {
				g.Bytes = ob.Result.Bytes
			}
		}
		if st != "discharged" && g.Status == "discharged" || (st == "failed" && g.Status == "undischarged") {
			g.Status = st
			g.FailTrace = ob.Trace
			g.Model = relevantModel(ob.Result.Model)
			g.Raw = truncateRaw(ob.Result.Raw)
			g.Pos = ob.Pos
			g.Goal = truncate(ob.Goal, 400)
			if !ob.Static {
				g.Solver = ob.Result.Solver
			}
		}
	}
	var out []*OblResult
	for _, n := range order {
		out = append(out, m[n])
	}
	return out
}

// relevantModel keeps scalar definitions of the model (drops arrays).
func relevantModel(m string) string {
	if m == "" {
		return ""
	}
	var keep []string
	lines := strings.Split(m, "\n")
	for i := 0; i < len(lines); i++ {
		l := strings.TrimSpace(lines[i])
		if strings.HasPrefix(l, "(define-fun") && (strings.Contains(l, "() Int") || strings.Contains(l, "() Bool") || strings.Contains(l, "() Str") || strings.Contains(l, "() Iface")) {
			val := ""
			if i+1 < len(lines) {
				val = strings.TrimSpace(lines[i+1])
			}
			name := strings.Fields(l)[1]
			if strings.HasPrefix(name, "lit") || strings.Contains(name, "$") || strings.HasPrefix(name, "fn.") || strings.HasPrefix(name, "iq!") || strings.HasPrefix(name, "bq!") || strings.HasPrefix(name, "errglob") || strings.HasPrefix(name, "globaddr") {
				continue
			}
			keep = append(keep, name+"="+strings.TrimSuffix(val, ")"))
		}
	}
	sort.Strings(keep)
	s := strings.Join(keep, " ")
	if len(s) > 3000 {
		s = s[:3000] + "..."
	}
	return s
}

// coverCheck: some complete path must be satisfiable (vacuity guard).
// feasibleWrites: heap arrays written on some final path that is not provably
// infeasible (a path whose condition the solver refutes writes nothing).
func feasibleWrites(x *Run, finals []*State) []string {
	var cand []*State
	for _, f := range finals {
		dead := false
		for _, c := range f.pc {
			if pcPlain(c) == "false" {
				dead = true
				break
			}
		}
		if !dead && len(f.dirty) > 0 {
			cand = append(cand, f)
		}
	}
	// keys written on every candidate path need no solver: some path of the
	// function is feasible (checked by the vacuity guard)
	status := make([]int, len(cand)) // 0 unknown, 1 feasible, 2 infeasible
	feasible := func(idx []int) {
		var wg sync.WaitGroup
		sem := make(chan struct{}, 16)
		for _, i := range idx {
			if status[i] != 0 {
				continue
			}
			wg.Add(1)
			go func(i int) {
				defer wg.Done()
				sem <- struct{}{}
				defer func() { <-sem }()
				var b strings.Builder
				for _, l := range strings.Split(x.d.preamble(), "\n") {
					if !strings.Contains(l, "(forall ") {
						b.WriteString(l + "\n")
					}
				}
				for _, c := range cand[i].pc {
					if !strings.Contains(c, "(forall ") {
						b.WriteString("(assert " + pcPlain(c) + ")\n")
					}
				}
				r := solve(b.String(), 3, false, []string{"z3-new"})
				if r.Status != "unsat" && r.Status != "sat" {
					r = solve(b.String(), 10, false, nil)
				}
				if r.Status == "unsat" {
					status[i] = 2
				} else {
					status[i] = 1
				}
			}(i)
		}
		wg.Wait()
	}
	byKey := map[string][]int{}
	for i, f := range cand {
		for k := range f.dirty {
			if strings.HasPrefix(k, "RangeVisited.") {
				continue // ghost state of range statements, not a heap location
			}
			byKey[k] = append(byKey[k], i)
		}
	}
	w := map[string]bool{}
	for _, k := range sortedKeys(byKey) {
		idx := byKey[k]
		if len(idx) == len(cand) {
			w[k] = true
			continue
		}
		found := false
		for lo := 0; lo < len(idx) && !found; lo += 16 {
			hi := lo + 16
			if hi > len(idx) {
				hi = len(idx)
			}
			feasible(idx[lo:hi])
			for _, i := range idx[lo:hi] {
				if status[i] == 1 {
					found = true
				}
			}
		}
		if found {
			w[k] = true
		}
	}
	return sortedKeys(w)
}

func coverCheck(x *Run, finals []*State) string {
	if len(finals) == 0 {
		return "none"
	}
	found := make(chan string, len(finals))
	var stop int32
	sem := make(chan struct{}, 8)
	n := 0
	var cand []*State
	for _, f := range finals {
		dead := false
		for _, c := range f.pc {
			if pcPlain(c) == "false" {
				dead = true
				break
			}
		}
		if !dead {
			cand = append(cand, f)
		}
	}
	if *flagVerbose {
		fmt.Printf("   cover: %d finals, %d without literal false\n", len(finals), len(cand))
	}
	for i, f := range cand {
		if i >= 400 {
			break
		}
		n++
		go func(f *State) {
			sem <- struct{}{}
			defer func() { <-sem }()
			if atomic.LoadInt32(&stop) != 0 {
				found <- "skip"
				return
			}
			var b strings.Builder
			// quantified axioms are left out of the vacuity query: solvers cannot
			// build models for them; contradictions that make a proof vacuous come
			// from the quantifier-free assumptions
			for _, l := range strings.Split(x.d.preamble(), "\n") {
				if !strings.Contains(l, "(forall ") {
					b.WriteString(l + "\n")
				}
			}
			for _, c := range f.pc {
				if !strings.Contains(c, "(forall ") {
					b.WriteString("(assert " + pcPlain(c) + ")\n")
				}
			}
			r := solve(b.String(), 3, false, []string{"z3-new"})
			if r.Status != "sat" && r.Status != "unsat" {
				r = solve(b.String(), 10, false, nil)
			}
			if r.Status == "sat" {
				atomic.StoreInt32(&stop, 1)
			}
			found <- r.Status
		}(f)
	}
	res := "none"
	for i := 0; i < n; i++ {
		s := <-found
		if s == "sat" {
			res = "sat"
		} else if s != "unsat" && s != "skip" && res == "none" {
			res = "unknown"
		}
	}
	return res
}

// localMadeChan: v is a local variable (possibly captured) that only ever
// holds channels made in the declaring function.
func localMadeChan(v ssa.Value, fn *ssa.Function, depth int) bool {
	if depth > 3 {
		return false
	}
	ld, ok := v.(*ssa.UnOp)
	if !ok {
		return false
	}
	switch a := ld.X.(type) {
	case *ssa.Alloc:
		return allocOnlyMadeChans(a)
	case *ssa.FreeVar:
		parent := fn.Parent()
		if parent == nil {
			return false
		}
		idx := -1
		for i, fv := range fn.FreeVars {
			if fv == a {
				idx = i
			}
		}
		for _, b := range parent.Blocks {
			for _, ins := range b.Instrs {
				if mc, ok := ins.(*ssa.MakeClosure); ok && mc.Fn == ssa.Value(fn) && idx >= 0 && idx < len(mc.Bindings) {
					switch bb := mc.Bindings[idx].(type) {
					case *ssa.Alloc:
						return allocOnlyMadeChans(bb)
					case *ssa.FreeVar:
						return localMadeChan(&ssa.UnOp{X: bb}, parent, depth+1)
					}
				}
			}
		}
	}
	return false
}

func allocOnlyMadeChans(a *ssa.Alloc) bool {
	n := 0
	for _, r := range *a.Referrers() {
		if st, ok := r.(*ssa.Store); ok && st.Addr == ssa.Value(a) {
			if _, ok := st.Val.(*ssa.MakeChan); !ok {
				return false
			}
			n++
		}
	}
	return n > 0
}

// deadArms (diagnostic, GOVC_DEADARMS=1): branch arms of the code that occur on
// explored paths but on no path whose condition is satisfiable - a hint at a
// modelling hole (a value the engine keeps constant although the code can
// change it) rather than a statement about the code.
func deadArms(x *Run, unit string, finals []*State, obls []*Obligation) {
	pre := ""
	for _, l := range strings.Split(x.d.preamble(), "\n") {
		if !strings.Contains(l, "(forall ") {
			pre += l + "\n"
		}
	}
	type pathT struct {
		trace []string
		pc    []string
	}
	var paths []pathT
	for _, f := range finals {
		paths = append(paths, pathT{f.trace, f.pc})
	}
	for _, ob := range obls {
		paths = append(paths, pathT{ob.Trace, ob.pcRef})
	}
	live := map[string]bool{}
	seen := map[string]bool{}
	memo := map[[20]byte]bool{}
	checks := 0
	for _, p := range paths {
		allLive := true
		for _, l := range p.trace {
			seen[l] = true
			if !live[l] {
				allLive = false
			}
		}
		if allLive || checks > 600 {
			continue
		}
		var b strings.Builder
		b.WriteString(pre)
		dead := false
		for _, c := range p.pc {
			pl := pcPlain(c)
			if pl == "false" {
				dead = true
				break
			}
			if !strings.Contains(pl, "(forall ") {
				b.WriteString("(assert " + pl + ")\n")
			}
		}
		if dead {
			continue
		}
		h := sha1.Sum([]byte(b.String()))
		ok, known := memo[h]
		if !known {
			checks++
			r := solve(b.String(), 3, false, []string{"z3-new"})
			ok = r.Status != "unsat"
			memo[h] = ok
		}
		if ok {
			for _, l := range p.trace {
				live[l] = true
			}
		}
	}
	var deadL []string
	for l := range seen {
		if !live[l] && !strings.Contains(l, "zz_contracts_verif") && strings.Contains(l, ".go:") {
			deadL = append(deadL, l)
		}
	}
	sort.Strings(deadL)
	if len(deadL) > 0 {
		fmt.Fprintf(os.Stderr, "DEADARMS %s: %s\n", unit, strings.Join(deadL, " "))
	}
}

// errPos splits "file:line:col" of a packages.Error.
// closeSites: per struct field holding a channel, the functions of the loaded
// frp packages that contain a close() of it.
var closeSites map[string][]string

func errPos(pos string) (string, int) {
	parts := strings.Split(pos, ":")
	if len(parts) < 2 {
		return pos, 0
	}
	n, _ := strconv.Atoi(parts[1])
	return parts[0], n
}

// dropContractAt removes from a contract file the top-level function (with its
// doc comment, i.e. its directives) that contains the given line; an import
// that became unused is turned into a blank import. Returns the new source and
// the name of the dropped function ("" for an import repair).
func dropContractAt(src []byte, line int, msg string) ([]byte, string, bool) {
	fset := token.NewFileSet()
	f, err := parser.ParseFile(fset, "x.go", src, parser.ParseComments)
	if err != nil {
		return nil, "", false
	}
	if strings.Contains(msg, "imported and not used") {
		for _, im := range f.Imports {
			if fset.Position(im.Pos()).Line == line {
				start := fset.Position(im.Pos()).Offset
				end := fset.Position(im.End()).Offset
				out := append([]byte{}, src[:start]...)
				out = append(out, []byte("_ "+im.Path.Value)...)
				out = append(out, src[end:]...)
				return out, "", true
			}
		}
		return nil, "", false
	}
	for _, d := range f.Decls {
		fd, ok := d.(*ast.FuncDecl)
		if !ok {
			continue
		}
		from := fd.Pos()
		if fd.Doc != nil {
			from = fd.Doc.Pos()
		}
		if fset.Position(from).Line <= line && line <= fset.Position(fd.End()).Line {
			start := fset.Position(from).Offset
			end := fset.Position(fd.End()).Offset
			out := append([]byte{}, src[:start]...)
			out = append(out, src[end:]...)
			return out, fd.Name.Name, true
		}
	}
	return nil, "", false
}
