package main

// Memory model: objects, fields, cells, maps, slices.

import (
	"fmt"
	"go/types"
	"strings"

	"golang.org/x/tools/go/ssa"
)

func (x *Run) freshVal(st *State, prefix string, ty types.Type) Val {
	s := x.d.sortOf(ty)
	if s == "Tuple" {
		tup := ty.(*types.Tuple)
		v := Val{S: s, Ty: ty}
		for i := 0; i < tup.Len(); i++ {
			v.Tup = append(v.Tup, x.freshVal(st, prefix, tup.At(i).Type()))
		}
		return v
	}
	c := x.d.fresh(prefix, s)
	v := Val{T: c, S: s, Ty: ty}
	x.assumeType(st, v)
	return v
}

// assumeType adds the range facts a value of Go type carries.
func (x *Run) assumeType(st *State, v Val) {
	if v.Ty == nil {
		return
	}
	if lo, hi, ok := intRange(v.Ty); ok && v.S == SInt {
		st.assume(fmt.Sprintf("(and (<= %s %s) (<= %s %s))", lo, v.T, v.T, hi))
		return
	}
	switch u := types.Unalias(v.Ty).Underlying().(type) {
	case *types.Slice:
		st.assume(fmt.Sprintf("(and (>= (slen_%s %s) 0) (<= (slen_%s %s) 9223372036854775807))", v.S, v.T, v.S, v.T))
		_ = u
	}
}

func (x *Run) zeroVal(ty types.Type) Val {
	return Val{T: x.d.zero(ty), S: x.d.sortOf(ty), Ty: ty}
}

// allocObj allocates a fresh struct object; returns its ref term.
func (x *Run) allocObj(st *State, ty types.Type, zeroInit bool) string {
	st.nfresh++
	ref := intLit(int64(-st.nfresh))
	if zeroInit {
		x.storeStruct(st, ref, ty, x.zeroVal(ty))
	}
	return ref
}

func (x *Run) fieldArr(ty types.Type, field int) string {
	st, _ := structOf(ty)
	name := fieldArrayName(ty, field)
	ft := st.Field(field).Type()
	x.arrSort(name, Sort(fmt.Sprintf("(Array Int %s)", x.d.sortOf(ft))))
	if nt, ok := types.Unalias(ty).(*types.Named); ok && nt.Obj().Pkg() != nil && !strings.HasPrefix(nt.Obj().Pkg().Path(), frpPrefix) {
		x.mu.Lock()
		x.libFieldArr[name] = true
		x.mu.Unlock()
	}
	if isRefType(ft) {
		x.mu.Lock()
		x.arrRefEl[name] = true
		x.mu.Unlock()
	}
	if sl, ok := types.Unalias(ft).Underlying().(*types.Slice); ok && isRefType(sl.Elem()) {
		x.mu.Lock()
		x.arrSliceRefEl[name] = string(x.d.sortOf(ft))
		x.mu.Unlock()
	}
	return name
}

// loadStruct reads a whole struct object into a by-value Val.
func (x *Run) loadStruct(st *State, ref string, ty types.Type) Val {
	stt, _ := structOf(ty)
	s := x.d.sortOf(ty)
	if s == SUnit {
		return Val{T: "unit", S: SUnit, Ty: ty}
	}
	v := Val{S: s, Ty: ty}
	args := make([]string, stt.NumFields())
	for i := 0; i < stt.NumFields(); i++ {
		fv := x.loadField(st, ref, ty, i)
		v.Fields = append(v.Fields, fv)
		args[i] = fv.T
	}
	v.T = app("mk_"+string(s), args...)
	return v
}

func (x *Run) loadField(st *State, ref string, ty types.Type, i int) Val {
	stt, _ := structOf(ty)
	ft := stt.Field(i).Type()
	if x.d.sortOf(ft) == SUnit {
		return Val{T: "unit", S: SUnit, Ty: ft}
	}
	name := x.fieldArr(ty, i)
	if m := st.lit[name]; m != nil && isNegLit(ref) {
		if t, ok := m[ref]; ok {
			t.Ty = ft
			return t
		}
	}
	v := Val{T: sel(x.arr(st, name), ref), S: x.d.sortOf(ft), Ty: ft}
	x.assumeType(st, v)
	if ct, ok := types.Unalias(ft).Underlying().(*types.Chan); ok && x.closable != nil && !x.closable[typeKey(ct.Elem())] && !x.closable["field:"+name] && !x.libFieldArr[name] {
		// no close() of a channel with this element type exists in the loaded frp packages
		vv := v
		vv.Origin = name
		st.assume(not(sel(x.arr(st, x.chClosedFor(vv, ft)), v.T)))
		x.mu.Lock()
		x.opaque["neverclosed:"+name] = true
		x.mu.Unlock()
	}
	return v
}

func (x *Run) storeStruct(st *State, ref string, ty types.Type, v Val) {
	stt, _ := structOf(ty)
	for i := 0; i < stt.NumFields(); i++ {
		x.storeField(st, ref, ty, i, x.fieldOf(v, i))
	}
}

func (x *Run) storeField(st *State, ref string, ty types.Type, i int, v Val) {
	stt, _ := structOf(ty)
	ft := stt.Field(i).Type()
	if x.d.sortOf(ft) == SUnit {
		return
	}
	name := x.fieldArr(ty, i)
	x.setArr(st, name, store(x.arr(st, name), ref, v.T))
	if _, isChan := types.Unalias(ft).Underlying().(*types.Chan); isChan && v.T != "0" {
		// the channel is from now on known through this field: carry its closed flag over
		src := x.chClosedFor(v, ft)
		dst := "ChClosed@" + name
		x.arrSort(dst, "(Array Int Bool)")
		if src != dst {
			x.setArr(st, dst, store(x.arr(st, dst), v.T, sel(x.arr(st, src), v.T)))
		}
	}
	if isNegLit(ref) {
		if st.lit[name] == nil {
			st.lit[name] = map[string]Val{}
		}
		st.lit[name][ref] = Val{T: v.T, S: v.S, Ty: v.Ty, Fields: v.Fields}
	} else {
		st.dirty[name] = true
	}
	if !isNegLit(ref) && len(st.lit[name]) > 0 {
		// a store through a symbolic reference cannot hit an object allocated on
		// this path only if that reference is known non-negative; be conservative
		delete(st.lit, name)
	}
}

func isNegLit(t string) bool { return strings.HasPrefix(t, "(- ") && !strings.Contains(t[3:], "(") }

// fieldOf extracts field i of a by-value struct Val.
func (x *Run) fieldOf(v Val, i int) Val {
	if v.Fields != nil && i < len(v.Fields) {
		return v.Fields[i]
	}
	stt, _ := structOf(v.Ty)
	ft := stt.Field(i).Type()
	fs := x.d.sortOf(ft)
	if fs == SUnit {
		return Val{T: "unit", S: SUnit, Ty: ft}
	}
	return Val{T: app(fieldSel(v.S, i), v.T), S: fs, Ty: ft}
}

// withField returns v with field i replaced.
func (x *Run) withField(v Val, i int, nv Val) Val {
	stt, _ := structOf(v.Ty)
	r := Val{S: v.S, Ty: v.Ty}
	args := make([]string, stt.NumFields())
	for j := 0; j < stt.NumFields(); j++ {
		var f Val
		if j == i {
			f = nv
		} else {
			f = x.fieldOf(v, j)
		}
		r.Fields = append(r.Fields, f)
		args[j] = f.T
	}
	r.T = app("mk_"+string(v.S), args...)
	return r
}

func (x *Run) selPath(v Val, path []int) Val {
	for _, i := range path {
		v = x.fieldOf(v, i)
	}
	return v
}

func (x *Run) updPath(v Val, path []int, nv Val) Val {
	if len(path) == 0 {
		return nv
	}
	inner := x.updPath(x.fieldOf(v, path[0]), path[1:], nv)
	return x.withField(v, path[0], inner)
}

// addrOf raises a pointer value to an Addr.
func (x *Run) addrOf(v Val) *Addr {
	if v.Addr != nil {
		return v.Addr
	}
	var elem types.Type
	if v.Ty != nil {
		if p, ok := types.Unalias(v.Ty).Underlying().(*types.Pointer); ok {
			elem = p.Elem()
		}
	}
	if elem != nil && isStruct(elem) {
		return &Addr{Kind: AObj, Ref: v.T, Ty: elem, Guard: v.Guard, Fresh: v.Fresh}
	}
	return &Addr{Kind: APtr, Ref: v.T, Ty: elem}
}

func (x *Run) ptrArr(elem types.Type) string {
	name := "Hp." + shortTypeName(elem)
	x.arrSort(name, Sort(fmt.Sprintf("(Array Int %s)", x.d.sortOf(elem))))
	return name
}

func (x *Run) globalVal(st *State, g *ssa.Global) Val {
	if v, ok := st.globals[g]; ok {
		return v
	}
	elem := g.Type().(*types.Pointer).Elem()
	var v Val
	if g.Name() == "init$guard" {
		v = Val{T: "false", S: SBool, Ty: elem}
		st.globals[g] = v
		return v
	}
	if x.d.sortOf(elem) == SIface && types.Identical(elem, types.Universe.Lookup("error").Type()) {
		// package-level error variables: distinct non-nil values
		tag := x.d.tag(g.Type())
		c := x.d.constArr("errglob."+g.Pkg.Pkg.Path()+"."+g.Name(), SInt)
		x.d.raw("ax.errglob."+g.String(), fmt.Sprintf("(assert (= %s %d))", c, 1000000+len(g.String())*1000+int(hashStr(g.String())%1000)))
		v = Val{T: fmt.Sprintf("(ibox %d %s)", tag, c), S: SIface, Ty: elem}
	} else {
		c := x.d.constArr("glob."+g.Pkg.Pkg.Path()+"."+g.Name(), x.d.sortOf(elem))
		v = Val{T: c, S: x.d.sortOf(elem), Ty: elem}
		x.assumeType(st, v)
		if x.spec != nil {
			if init, ok := x.spec.globalInit(x, g); ok {
				v = init
			}
		}
	}
	st.globals[g] = v
	return v
}

func hashStr(s string) uint32 {
	var h uint32 = 2166136261
	for i := 0; i < len(s); i++ {
		h ^= uint32(s[i])
		h *= 16777619
	}
	return h
}

// load reads through an address.
func (x *Run) load(st *State, a *Addr, ty types.Type) Val {
	var v Val
	switch a.Kind {
	case AObj:
		v = x.loadStruct(st, a.Ref, a.Ty)
	case AField:
		v = x.selPath(x.loadField(st, a.Ref, a.Ty, a.Field), a.Sel)
		if isRefType(v.Ty) || x.d.slices[v.S] != "" {
			// the lock protects the field and, for maps / slices / channels, the
			// contents reached through it; an object a guarded pointer field points
			// to has its own synchronisation
			if _, isPtr := types.Unalias(v.Ty).Underlying().(*types.Pointer); !isPtr {
				v.Guard = a.Guard
			}
			if len(a.Sel) == 0 {
				v.Origin = fieldArrayName(a.Ty, a.Field)
			}
		} else if _, isSig := types.Unalias(v.Ty).Underlying().(*types.Signature); isSig && len(a.Sel) == 0 {
			v.Origin = fieldArrayName(a.Ty, a.Field)
		}
	case ACell:
		c, ok := st.cells[a.Cell]
		if !ok {
			c = x.zeroVal(a.Cell.ty)
		}
		v = x.selPath(c, a.Sel)
	case AArrCell:
		c := st.cells[a.Cell]
		arr := a.Cell.ty.Underlying().(*types.Array)
		v = Val{T: sel(c.T, a.Idx), S: x.d.sortOf(arr.Elem()), Ty: arr.Elem()}
		if c.Tup != nil {
			// element values tracked Go-side when index is a literal
			var n int
			if _, err := fmt.Sscanf(a.Idx, "%d", &n); err == nil && n < len(c.Tup) && c.Tup[n].S != "" {
				v = c.Tup[n]
			}
		}
		v = x.selPath(v, a.Sel)
	case AGlobal:
		v = x.selPath(x.globalVal(st, a.Glob), a.Sel)
	case APtr:
		if a.Ty == nil {
			v = x.freshVal(st, "deref", ty)
		} else {
			name := x.ptrArr(a.Ty)
			v = Val{T: sel(x.arr(st, name), a.Ref), S: x.d.sortOf(a.Ty), Ty: a.Ty}
			x.assumeType(st, v)
		}
	case AElem:
		es := x.d.slices[a.Slice.S]
		et := types.Unalias(a.Slice.Ty).Underlying().(*types.Slice).Elem()
		v = Val{T: sel(app("sarr_"+string(a.Slice.S), a.Slice.T), a.Idx), S: es, Ty: et}
		x.assumeType(st, v)
		v = x.selPath(v, a.Sel)
	}
	if v.Ty == nil {
		v.Ty = ty
	}
	return v
}

func (x *Run) storeAddr(st *State, a *Addr, v Val, site ssa.Instruction) {
	switch a.Kind {
	case AObj:
		x.storeStruct(st, a.Ref, a.Ty, v)
	case AField:
		if len(a.Sel) == 0 {
			x.storeField(st, a.Ref, a.Ty, a.Field, v)
		} else {
			cur := x.loadField(st, a.Ref, a.Ty, a.Field)
			x.storeField(st, a.Ref, a.Ty, a.Field, x.updPath(cur, a.Sel, v))
		}
	case ACell:
		if len(a.Sel) == 0 {
			st.cells[a.Cell] = v
		} else {
			c, ok := st.cells[a.Cell]
			if !ok {
				c = x.zeroVal(a.Cell.ty)
			}
			st.cells[a.Cell] = x.updPath(c, a.Sel, v)
		}
	case AArrCell:
		c := st.cells[a.Cell]
		nc := Val{T: store(c.T, a.Idx, x.updPathElem(st, a, v).T), S: c.S, Ty: c.Ty}
		var n int
		if _, err := fmt.Sscanf(a.Idx, "%d", &n); err == nil && len(a.Sel) == 0 {
			nc.Tup = append([]Val(nil), c.Tup...)
			for len(nc.Tup) <= n {
				nc.Tup = append(nc.Tup, Val{})
			}
			nc.Tup[n] = v
		}
		st.cells[a.Cell] = nc
	case AGlobal:
		cur := x.globalVal(st, a.Glob)
		st.globals[a.Glob] = x.updPath(cur, a.Sel, v)
	case APtr:
		if a.Ty == nil {
			x.unsupported("store through untyped pointer", site.Pos())
			return
		}
		name := x.ptrArr(a.Ty)
		x.setArr(st, name, store(x.arr(st, name), a.Ref, v.T))
		st.dirty[name] = true
	case AElem:
		if a.rebind == nil || len(a.Sel) != 0 {
			x.unsupported("store into slice element (value-semantics slices)", site.Pos())
			return
		}
		// slices are values: the SSA value naming the slice is re-bound (A-SLICE:
		// other values sharing the backing array do not observe the store)
		s := *a.Slice
		nv := Val{T: x.mkSlice(s.S, store(x.sliceArr(s), a.Idx, v.T), x.sliceLen(s)), S: s.S, Ty: s.Ty}
		a.rebind(nv)
	}
}

func (x *Run) updPathElem(st *State, a *Addr, v Val) Val {
	if len(a.Sel) == 0 {
		return v
	}
	cur := x.load(st, &Addr{Kind: AArrCell, Cell: a.Cell, Idx: a.Idx}, nil)
	return x.updPath(cur, a.Sel, v)
}

// ptrTerm lowers an address to an Int term (identity of the pointer).
func (x *Run) ptrTerm(a *Addr) string {
	switch a.Kind {
	case AObj:
		return a.Ref
	case AField:
		st, _ := structOf(a.Ty)
		name := "fp." + shortTypeName(types.Unalias(a.Ty)) + "." + st.Field(a.Field).Name()
		for _, s := range a.Sel {
			name += fmt.Sprintf(".%d", s)
		}
		f := x.d.fun(name, []Sort{SInt}, SInt)
		return app(f, a.Ref)
	case ACell, AArrCell:
		return intLit(int64(-1000000 - a.Cell.id))
	case AGlobal:
		return x.d.constArr("globaddr."+a.Glob.Pkg.Pkg.Path()+"."+a.Glob.Name(), SInt)
	case APtr:
		return a.Ref
	}
	return "0"
}

// ---- maps ----

type mapArrs struct{ dom, val, ln string }

func (x *Run) mapArrs(mt *types.Map) mapArrs {
	ks, vs := x.d.sortOf(mt.Key()), x.d.sortOf(mt.Elem())
	// one family of arrays per Go map type (maps of different types never alias)
	base := shortTypeName(mt)
	m := mapArrs{"Md." + base, "Mv." + base, "Ml." + base}
	x.arrSort(m.dom, Sort(fmt.Sprintf("(Array Int (Array %s Bool))", ks)))
	x.arrSort(m.val, Sort(fmt.Sprintf("(Array Int (Array %s %s))", ks, vs)))
	x.arrSort(m.ln, "(Array Int Int)")
	x.mu.Lock()
	if isRefType(mt.Elem()) {
		x.arrRefEl[m.val] = true
	}
	if sl, ok := types.Unalias(mt.Elem()).Underlying().(*types.Slice); ok && isRefType(sl.Elem()) {
		x.arrSliceRefEl[m.val] = string(vs)
	}
	if x.mapZero[m.val] == "" {
		x.mu.Unlock()
		z := x.d.zero(mt.Elem())
		x.mu.Lock()
		x.mapZero[m.val] = z
	}
	x.mu.Unlock()
	return m
}

// visitedArr: ghost array "keys visited by the running range statement", per
// map type, indexed by map object then key.
func (x *Run) visitedArr(mt *types.Map) string {
	name := "RangeVisited." + shortTypeName(mt)
	x.arrSort(name, Sort(fmt.Sprintf("(Array Int (Array %s Bool))", x.d.sortOf(mt.Key()))))
	return name
}

func mapTypeOf(t types.Type) *types.Map {
	m, _ := types.Unalias(t).Underlying().(*types.Map)
	return m
}

func (x *Run) mapHas(st *State, m Val, k string) string {
	a := x.mapArrs(mapTypeOf(m.Ty))
	return sel(sel(x.arr(st, a.dom), m.T), k)
}

func (x *Run) mapGet(st *State, m Val, k string) (Val, string) {
	mt := mapTypeOf(m.Ty)
	a := x.mapArrs(mt)
	has := sel(sel(x.arr(st, a.dom), m.T), k)
	raw := sel(sel(x.arr(st, a.val), m.T), k)
	// representation invariant of map rows: absent keys hold the zero value
	// (established for every base / havocked row, kept by delete), so a lookup
	// is a plain select and terms stay free of ite
	v := Val{T: raw, S: x.d.sortOf(mt.Elem()), Ty: mt.Elem(), MaybeNil: true}
	x.assumeType(st, Val{T: raw, S: v.S, Ty: v.Ty})
	return v, has
}

func (x *Run) mapLen(st *State, m Val) string {
	a := x.mapArrs(mapTypeOf(m.Ty))
	t := sel(x.arr(st, a.ln), m.T)
	st.assume(fmt.Sprintf("(>= %s 0)", t))
	return t
}

func (x *Run) mapSet(st *State, m Val, k string, v Val) {
	a := x.mapArrs(mapTypeOf(m.Ty))
	if !isNegLit(m.T) {
		if m.Origin != "" {
			st.dirty["map:"+m.Origin] = true
		} else {
			st.dirty[a.dom] = true
		}
	}
	dom := x.arr(st, a.dom)
	was := sel(sel(dom, m.T), k)
	ln := x.arr(st, a.ln)
	x.setArr(st, a.ln, store(ln, m.T, ite(was, sel(ln, m.T), fmt.Sprintf("(+ %s 1)", sel(ln, m.T)))))
	x.setArr(st, a.dom, store(dom, m.T, store(sel(dom, m.T), k, "true")))
	val := x.arr(st, a.val)
	x.setArr(st, a.val, store(val, m.T, store(sel(val, m.T), k, v.T)))
}

func (x *Run) mapDelete(st *State, m Val, k string) {
	a := x.mapArrs(mapTypeOf(m.Ty))
	if !isNegLit(m.T) {
		if m.Origin != "" {
			st.dirty["map:"+m.Origin] = true
		} else {
			st.dirty[a.dom] = true
		}
	}
	dom := x.arr(st, a.dom)
	was := sel(sel(dom, m.T), k)
	ln := x.arr(st, a.ln)
	x.setArr(st, a.ln, store(ln, m.T, ite(was, fmt.Sprintf("(- %s 1)", sel(ln, m.T)), sel(ln, m.T))))
	x.setArr(st, a.dom, store(dom, m.T, store(sel(dom, m.T), k, "false")))
	mtD := mapTypeOf(m.Ty)
	val := x.arr(st, a.val)
	x.setArr(st, a.val, store(val, m.T, store(sel(val, m.T), k, x.d.zero(mtD.Elem()))))
}

func (x *Run) makeMap(st *State, ty types.Type) Val {
	mt := mapTypeOf(ty)
	a := x.mapArrs(mt)
	st.nfresh++
	ref := intLit(int64(-st.nfresh))
	ks := x.d.sortOf(mt.Key())
	x.setArr(st, a.dom, store(x.arr(st, a.dom), ref, fmt.Sprintf("((as const (Array %s Bool)) false)", ks)))
	x.setArr(st, a.val, store(x.arr(st, a.val), ref, x.d.constArray(string(ks), x.d.sortOf(mt.Elem()), x.d.zero(mt.Elem()))))
	x.setArr(st, a.ln, store(x.arr(st, a.ln), ref, "0"))
	return Val{T: ref, S: SInt, Ty: ty, Fresh: true}
}

// havocMapContents forgets the contents of one map object.
func (x *Run) havocMapContents(st *State, m Val) {
	mt := mapTypeOf(m.Ty)
	if mt == nil {
		return
	}
	a := x.mapArrs(mt)
	ks, vs := x.d.sortOf(mt.Key()), x.d.sortOf(mt.Elem())
	fd := x.d.fresh("hdom", Sort(fmt.Sprintf("(Array %s Bool)", ks)))
	fv := x.d.fresh("hval", Sort(fmt.Sprintf("(Array %s %s)", ks, vs)))
	fl := x.d.fresh("hlen", SInt)
	x.d.raw("ax.zero."+fv, fmt.Sprintf("(assert (forall ((k %s)) (! (=> (not (select %s k)) (= (select %s k) %s)) :pattern ((select %s k)))))", ks, fd, fv, x.d.zero(mt.Elem()), fv))
	x.setArr(st, a.dom, store(x.arr(st, a.dom), m.T, fd))
	x.setArr(st, a.val, store(x.arr(st, a.val), m.T, fv))
	x.setArr(st, a.ln, store(x.arr(st, a.ln), m.T, fl))
	if isRefType(mt.Elem()) && !strings.HasPrefix(m.T, "(- ") {
		// refs stored in a shared table by other goroutines are not objects of this path
		x.d.raw("ax."+fv, fmt.Sprintf("(assert (forall ((k %s)) (! (>= (select %s k) 0) :pattern ((select %s k)))))", ks, fv, fv))
	}
}

// ---- slices ----

func (x *Run) sliceLen(v Val) string { return app("slen_"+string(v.S), v.T) }
func (x *Run) sliceArr(v Val) string { return app("sarr_"+string(v.S), v.T) }
func (x *Run) mkSlice(s Sort, arr, ln string) string {
	return app("mk_"+string(s), arr, ln)
}

// ---- channels ----

// chClosedArr: ghost closed-flag array, one per channel element type
// (channels of different types never alias).
// chClosedFor: the closed-flag array for a channel value. Channels made on
// this path (literal refs) use the per-type array; channels loaded from a
// struct field use an array per field (A-CHANFIELD: a channel held in a
// struct field is closed only through that field), so that effects of
// unrelated code on other channels of the same type do not clobber it.
func (x *Run) chClosedFor(v Val, t types.Type) string {
	if v.Origin != "" {
		name := "ChClosed@" + v.Origin
		x.arrSort(name, "(Array Int Bool)")
		return name
	}
	return x.chClosedArr(t)
}

func (x *Run) chClosedArr(t types.Type) string {
	name := "ChClosed"
	if t != nil {
		if ct, ok := types.Unalias(t).Underlying().(*types.Chan); ok {
			name = "ChClosed." + shortTypeName(ct.Elem())
		}
	}
	x.arrSort(name, "(Array Int Bool)")
	return name
}
func (x *Run) chCapArr() string {
	x.arrSort("ChCap", "(Array Int Int)")
	return "ChCap"
}

// ---- interfaces ----

func (x *Run) box(st *State, v Val, ifaceTy types.Type) Val {
	if v.S == SIface {
		r := v
		r.Ty = ifaceTy
		return r
	}
	tag := x.d.tag(v.Ty)
	var payload string
	switch v.S {
	case SInt:
		payload = v.T
	default:
		bf := x.d.fun("box."+sortMangle(v.S), []Sort{v.S}, SInt)
		uf := x.d.fun("unbox."+sortMangle(v.S), []Sort{SInt}, v.S)
		payload = app(bf, v.T)
		st.assume(eq(app(uf, payload), v.T))
	}
	inner := v
	return Val{T: fmt.Sprintf("(ibox %d %s)", tag, payload), S: SIface, Ty: ifaceTy, Inner: &inner}
}

func (x *Run) unbox(v Val, ty types.Type) Val {
	if v.Inner != nil && types.Identical(v.Inner.Ty, ty) {
		return *v.Inner
	}
	s := x.d.sortOf(ty)
	if s == SInt {
		return Val{T: app("ival", v.T), S: SInt, Ty: ty}
	}
	uf := x.d.fun("unbox."+sortMangle(s), []Sort{SInt}, s)
	return Val{T: app(uf, app("ival", v.T)), S: s, Ty: ty}
}
