package main

// If-conversion for specification code: an `if` whose arms are side-effect
// free is executed on both arms up to the immediate post-dominator and the
// arms are merged there (phis become ite terms), so that contract functions
// and pure spec functions do not multiply the number of paths.

import (
	"go/types"

	"golang.org/x/tools/go/ssa"
)

var pdomCache = map[*ssa.Function]map[*ssa.BasicBlock]*ssa.BasicBlock{}

func (x *Run) ipdom(fn *ssa.Function) map[*ssa.BasicBlock]*ssa.BasicBlock {
	x.mu.Lock()
	if m, ok := pdomCache[fn]; ok {
		x.mu.Unlock()
		return m
	}
	x.mu.Unlock()
	n := len(fn.Blocks)
	// pdom sets as bitsets over block indices (+ virtual exit implicit)
	all := make([]bool, n)
	for i := range all {
		all[i] = true
	}
	pd := make([][]bool, n)
	for i, b := range fn.Blocks {
		pd[i] = make([]bool, n)
		if len(b.Succs) == 0 {
			pd[i][i] = true
		} else {
			copy(pd[i], all)
		}
	}
	changed := true
	for changed {
		changed = false
		for i := n - 1; i >= 0; i-- {
			b := fn.Blocks[i]
			if len(b.Succs) == 0 {
				continue
			}
			nw := make([]bool, n)
			copy(nw, all)
			for _, s := range b.Succs {
				for k := 0; k < n; k++ {
					nw[k] = nw[k] && pd[s.Index][k]
				}
			}
			nw[i] = true
			for k := 0; k < n; k++ {
				if nw[k] != pd[i][k] {
					changed = true
				}
			}
			pd[i] = nw
		}
	}
	res := map[*ssa.BasicBlock]*ssa.BasicBlock{}
	for i, b := range fn.Blocks {
		// immediate post-dominator: the strict post-dominator with the largest pdom set
		best := -1
		bestSize := -1
		for k := 0; k < n; k++ {
			if k == i || !pd[i][k] {
				continue
			}
			size := 0
			for j := 0; j < n; j++ {
				if pd[k][j] {
					size++
				}
			}
			if size > bestSize {
				bestSize = size
				best = k
			}
		}
		if best >= 0 {
			res[b] = fn.Blocks[best]
		}
	}
	x.mu.Lock()
	pdomCache[fn] = res
	x.mu.Unlock()
	return res
}

// regionPure: blocks strictly between b and p contain only side-effect free
// instructions (obligation-emitting intrinsics are allowed).
func (x *Run) regionPure(fr *Frame, b, p *ssa.BasicBlock) bool {
	seen := map[*ssa.BasicBlock]bool{}
	stack := append([]*ssa.BasicBlock(nil), b.Succs...)
	li := x.loops(fr.fn)
	if li.byHeader[p] != nil {
		return false
	}
	count := 0
	for len(stack) > 0 {
		c := stack[len(stack)-1]
		stack = stack[:len(stack)-1]
		if c == p || seen[c] {
			continue
		}
		if c == b || li.byHeader[c] != nil {
			return false
		}
		seen[c] = true
		count++
		if count > 80 {
			return false
		}
		for _, ins := range c.Instrs {
			switch i := ins.(type) {
			case *ssa.Phi, *ssa.BinOp, *ssa.UnOp, *ssa.FieldAddr, *ssa.Field, *ssa.IndexAddr, *ssa.Index, *ssa.Lookup,
				*ssa.Extract, *ssa.Convert, *ssa.ChangeType, *ssa.ChangeInterface, *ssa.MakeInterface, *ssa.Slice,
				*ssa.DebugRef, *ssa.Jump, *ssa.If, *ssa.TypeAssert:
				if u, ok := ins.(*ssa.UnOp); ok && u.Op.String() == "<-" {
					return false
				}
			case *ssa.Alloc:
				// local temporaries (e.g. varargs arrays) are fine
				if i.Heap {
					if _, isArr := i.Type().(*types.Pointer).Elem().Underlying().(*types.Array); !isArr {
						return false
					}
				}
			case *ssa.Store:
				// stores into local array temporaries only (varargs)
				ia, ok := i.Addr.(*ssa.IndexAddr)
				if !ok {
					return false
				}
				if _, ok := ia.X.(*ssa.Alloc); !ok {
					return false
				}
			case *ssa.Call:
				if !x.pureCall(fr, &i.Call) {
					return false
				}
			default:
				return false
			}
		}
		stack = append(stack, c.Succs...)
	}
	return true
}

func (x *Run) pureCall(fr *Frame, cc *ssa.CallCommon) bool {
	if cc.IsInvoke() {
		return fr.inPure()
	}
	if b, ok := cc.Value.(*ssa.Builtin); ok {
		switch b.Name() {
		case "len", "cap", "min", "max":
			return true
		}
		return false
	}
	fn := cc.StaticCallee()
	if fn == nil {
		return false
	}
	if fr.con != nil && fr.con.Target == fn {
		return false
	}
	if x.isVerifPkg(fn) {
		switch baseName(fn) {
		case "Snap", "ResetEvents", "AssumeHeld", "Any":
			return false
		}
		return true
	}
	name := fn.String()
	if x.spec.pure[name] || x.spec.uninterp[name] || x.spec.detExt(fn) {
		return true
	}
	if _, ok := modelTable[name]; ok {
		switch name {
		case "strings.ToLower", "strings.HasPrefix", "strings.HasSuffix", "strings.Contains", "strings.TrimSpace", "strconv.Itoa", "net.JoinHostPort", "fmt.Sprintf",
			frpPrefix + "/pkg/util/util.GetAuthKey", frpPrefix + "/pkg/util/util.ConstantTimeEqString":
			return true
		}
	}
	return fr.inPure()
}

func baseName(fn *ssa.Function) string {
	n := fn.Name()
	for i := 0; i < len(n); i++ {
		if n[i] == '[' {
			return n[:i]
		}
	}
	return n
}

// tryMerge executes both arms of an `if` in spec code up to the join block and
// merges them. ok=false: not applicable, caller forks as usual.
func (x *Run) tryMerge(fr *Frame, st *State, b *ssa.BasicBlock, ins *ssa.If, cond Val) ([]Outcome, bool) {
	if !(fr.inPure() || fr.inSpec()) || fr.stopAt == b {
		return nil, false
	}
	p := x.ipdom(fr.fn)[b]
	if p == nil || p == fr.stopAt || !x.regionPure(fr, b, p) {
		return nil, false
	}
	// phis at p must be scalar
	for _, pi := range p.Instrs {
		phi, ok := pi.(*ssa.Phi)
		if !ok {
			break
		}
		s := x.d.sortOf(phi.Type())
		if s == "Tuple" {
			return nil, false
		}
		if _, isSig := types.Unalias(phi.Type()).Underlying().(*types.Signature); isSig {
			return nil, false
		}
	}
	p0 := len(st.pc)
	type armOut struct {
		conds []string
		facts []string
		ens   []string
		from  *ssa.BasicBlock
		env   map[ssa.Value]Val
		st    *State
	}
	var arms []armOut
	for k := 0; k < 2; k++ {
		a := st.clone()
		f := fr.clone()
		f.stopAt = p
		if k == 0 {
			a.assumeK(cond.T, 'c')
		} else {
			a.assumeK(not(cond.T), 'c')
		}
		var outs []Outcome
		if b.Succs[k] == p {
			outs = []Outcome{{st: a, stopped: true, stopFrom: b, stopEnv: f.env}}
		} else {
			outs = x.enterBlock(f, b, b.Succs[k], a)
		}
		for _, o := range outs {
			if !o.stopped {
				continue
			}
			ao := armOut{from: o.stopFrom, env: o.stopEnv, st: o.st}
			for _, c := range o.st.pc[p0:] {
				switch pcKind(c) {
				case 'c':
					ao.conds = append(ao.conds, pcPlain(c))
				case 'e':
					ao.ens = append(ao.ens, pcPlain(c))
				default:
					ao.facts = append(ao.facts, pcPlain(c))
				}
			}
			arms = append(arms, ao)
		}
	}
	if len(arms) == 0 {
		return nil, true // both arms ended (e.g. infeasible): no continuation
	}
	// merged state: entry state plus arm-conditional facts
	for _, a := range arms {
		if len(a.facts) > 0 {
			st.assume(implies(and(a.conds...), and(a.facts...)))
		}
		if len(a.ens) > 0 {
			st.assumeK(implies(and(a.conds...), and(a.ens...)), 'e')
		}
	}
	// obligations emitted in arms may have advanced ghost bookkeeping only in their own states; nothing to merge
	for _, pi := range p.Instrs {
		phi, ok := pi.(*ssa.Phi)
		if !ok {
			break
		}
		var merged Val
		for i := len(arms) - 1; i >= 0; i-- {
			a := arms[i]
			idx := -1
			for j, pr := range p.Preds {
				if pr == a.from {
					idx = j
				}
			}
			if idx < 0 {
				return nil, false
			}
			tmpFr := &Frame{fn: fr.fn, env: a.env, parent: fr.parent, mode: fr.mode}
			v := x.val(tmpFr, a.st, phi.Edges[idx])
			v = x.coerce(a.st, v, phi.Type())
			if i == len(arms)-1 {
				merged = v
			} else {
				nv := Val{T: ite(and(a.conds...), v.T, merged.T), S: v.S, Ty: phi.Type()}
				if v.T == merged.T {
					nv = v
				}
				merged = nv
			}
		}
		fr.env[phi] = merged
		if phi.Comment != "" {
			fr.names[phi.Comment] = merged
		}
	}
	fr.prev = b
	return x.runBlock(fr, p, x.firstNonPhi(p), st), true
}
