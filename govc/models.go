package main

// Built-in models of library functions.

import (
	"fmt"
	"go/types"
	"strings"
	"sync"

	"golang.org/x/tools/go/ssa"
)

var noopPkgs = map[string]bool{
	frpPrefix + "/pkg/util/xlog":          true,
	frpPrefix + "/pkg/util/log":           true,
	"github.com/fatedier/golib/log":       true,
	frpPrefix + "/server/metrics":         false,
	frpPrefix + "/pkg/metrics/mem":        false,
	frpPrefix + "/pkg/metrics/prometheus": false,
}

func (x *Run) isModelled(fn *ssa.Function) bool {
	name := fn.String()
	if _, ok := modelTable[name]; ok {
		return true
	}
	if noopPkgs[pkgPathOf(fn)] {
		return true
	}
	if strings.HasPrefix(name, "(*sync.") || strings.HasPrefix(name, "(*sync/atomic.") || strings.HasPrefix(name, "sync/atomic.") {
		return true
	}
	return false
}

func (x *Run) modelMod(fn *ssa.Function, cc *ssa.CallCommon, ms *ModSet) {
	name := fn.String()
	if strings.HasPrefix(name, "(*sync/atomic.") || strings.HasPrefix(name, "sync/atomic.") {
		if strings.Contains(name, "Store") || strings.Contains(name, "Add") || strings.Contains(name, "Swap") {
			if len(cc.Args) > 0 {
				if p, ok := cc.Args[0].Type().Underlying().(*types.Pointer); ok && isStruct(p.Elem()) {
					x.modWholeStruct(p.Elem(), ms)
				} else if ok {
					ms.Arrs[x.ptrArr(p.Elem())] = true
				}
			}
		}
	}
}

type modelFn func(x *Run, fr *Frame, st *State, fn *ssa.Function, args []Val, site ssa.Instruction) []Outcome

var modelTable map[string]modelFn

func init() {
	modelTable = map[string]modelFn{
		"(*sync.Mutex).Lock": func(x *Run, fr *Frame, st *State, fn *ssa.Function, a []Val, s ssa.Instruction) []Outcome {
			return x.lockOp(fr, st, a[0], 1, s)
		},
		"(*sync.Mutex).Unlock": func(x *Run, fr *Frame, st *State, fn *ssa.Function, a []Val, s ssa.Instruction) []Outcome {
			return x.unlockOp(fr, st, a[0], 1, s)
		},
		"(*sync.RWMutex).Lock": func(x *Run, fr *Frame, st *State, fn *ssa.Function, a []Val, s ssa.Instruction) []Outcome {
			return x.lockOp(fr, st, a[0], 1, s)
		},
		"(*sync.RWMutex).Unlock": func(x *Run, fr *Frame, st *State, fn *ssa.Function, a []Val, s ssa.Instruction) []Outcome {
			return x.unlockOp(fr, st, a[0], 1, s)
		},
		"(*sync.RWMutex).RLock": func(x *Run, fr *Frame, st *State, fn *ssa.Function, a []Val, s ssa.Instruction) []Outcome {
			return x.lockOp(fr, st, a[0], 2, s)
		},
		"(*sync.RWMutex).RUnlock": func(x *Run, fr *Frame, st *State, fn *ssa.Function, a []Val, s ssa.Instruction) []Outcome {
			return x.unlockOp(fr, st, a[0], 2, s)
		},
		"(*sync.Once).Do":        modelOnceDo,
		"(*sync.WaitGroup).Add":  modelNoop,
		"(*sync.WaitGroup).Done": modelNoop,
		"(*sync.WaitGroup).Wait": modelNoop,
		"strconv.Itoa":           modelUF("itoa"),
		"reflect.TypeOf":         modelTypeOf,
		"strings.ToLower":        modelToLower,

		"strings.HasSuffix":                     modelUF("hassuffix"),
		"strings.Contains":                      modelUF("contains"),
		"strings.TrimSpace":                     modelUF("trimspace"),
		"strings.TrimSuffix":                    modelUF("trimsuffix"),
		"strings.TrimPrefix":                    modelUF("trimprefix"),
		"strings.EqualFold":                     modelUF("equalfold"),
		"net.JoinHostPort":                      modelUF("joinhostport"),
		"errors.New":                            modelNewError,
		"fmt.Errorf":                            modelNewError,
		"fmt.Sprintf":                           modelSprintf,
		"time.Now":                              modelFresh,
		"time.Since":                            modelFresh,
		"(time.Time).Unix":                      modelUF("time.unix"),
		"(time.Duration).Seconds":               modelUF("dur.seconds"),
		"runtime/debug.Stack":                   modelFresh,
		"(*sync/atomic.Value).Store":            modelAtomicValueStore,
		"(*sync/atomic.Value).Load":             modelAtomicValueLoad,
		frpPrefix + "/pkg/util/util.GetAuthKey": modelUF("authkey"),
		frpPrefix + "/pkg/util/util.ConstantTimeEqString": modelStrEq,
		"crypto/subtle.ConstantTimeCompare":               modelFresh,
	}
}

// strOrderAxioms: facts about Go's byte-wise string order and prefixes over
// the uninterpreted string sort (each is provable in the solvers' native
// string theory; see /verif/axioms).
func (x *Run) strOrderAxioms() (string, string) {
	lt := x.d.fun("strlt", []Sort{SStr, SStr}, SBool)
	hp := x.d.fun("m.hasprefix.r0", []Sort{SStr, SStr}, SBool)
	x.d.raw("ax.strlt.irrefl", fmt.Sprintf("(assert (forall ((a Str)) (! (not (%s a a)) :pattern ((%s a a)))))", lt, lt))
	x.d.raw("ax.strlt.asym", fmt.Sprintf("(assert (forall ((a Str) (b Str)) (! (=> (%s a b) (not (%s b a))) :pattern ((%s a b)))))", lt, lt, lt))
	x.d.raw("ax.strlt.trans", fmt.Sprintf("(assert (forall ((a Str) (b Str) (c Str)) (! (=> (and (%s a b) (%s b c)) (%s a c)) :pattern ((%s a b) (%s b c)))))", lt, lt, lt, lt, lt))
	x.d.raw("ax.strlt.total", fmt.Sprintf("(assert (forall ((a Str) (b Str)) (! (or (= a b) (%s a b) (%s b a)) :pattern ((%s a b)))))", lt, lt, lt))
	x.d.raw("ax.hp.refl", fmt.Sprintf("(assert (forall ((a Str)) (! (%s a a) :pattern ((%s a a)))))", hp, hp))
	x.d.raw("ax.hp.len", fmt.Sprintf("(assert (forall ((s Str) (p Str)) (! (=> (%s s p) (<= (strlen p) (strlen s))) :pattern ((%s s p)))))", hp, hp))
	x.d.raw("ax.hp.eqlen", fmt.Sprintf("(assert (forall ((s Str) (p Str)) (! (=> (and (%s s p) (= (strlen p) (strlen s))) (= s p)) :pattern ((%s s p)))))", hp, hp))
	x.d.raw("ax.hp.comparable", fmt.Sprintf("(assert (forall ((s Str) (p Str) (q Str)) (! (=> (and (%s s p) (%s s q)) (or (%s p q) (%s q p))) :pattern ((%s s p) (%s s q)))))", hp, hp, hp, hp, hp, hp))
	x.d.raw("ax.hp.proper.lt", fmt.Sprintf("(assert (forall ((s Str) (p Str)) (! (=> (and (%s s p) (not (= s p))) (%s p s)) :pattern ((%s s p)))))", hp, lt, hp))
	x.d.raw("ax.hp.trans", fmt.Sprintf("(assert (forall ((s Str) (p Str) (q Str)) (! (=> (and (%s s p) (%s p q)) (%s s q)) :pattern ((%s s p) (%s p q)))))", hp, hp, hp, hp, hp))
	return lt, hp
}

func (x *Run) modelStrCompare(st *State, a, b Val, rt types.Type) Val {
	lt, _ := x.strOrderAxioms()
	return Val{T: ite(app(lt, a.T, b.T), "(- 1)", ite(eq(a.T, b.T), "0", "1")), S: SInt, Ty: rt}
}

func (x *Run) model(fr *Frame, st *State, fn *ssa.Function, args []Val, site ssa.Instruction) ([]Outcome, bool) {
	name := fn.String()
	switch name {
	case "strings.IndexByte", "strings.Index", "strings.LastIndex", "strings.LastIndexByte", "strings.IndexRune", "strings.IndexAny":
		r := x.ufApply(st, "ext."+x.fnShort(fn), args, fn.Signature.Results())
		st.assume(fmt.Sprintf("(and (>= %s (- 1)) (< %s (strlen %s)))", r.T, r.T, args[0].T))
		return single(st, r), true
	case "strings.Count_never":
		return nil, false
	}
	if strings.HasPrefix(name, frpPrefix+"/pkg/util/util.EmptyOr[") && len(args) == 2 && args[0].S == args[1].S && (args[0].S == SInt || args[0].S == SStr || args[0].S == SBool) && args[0].Clo == nil && args[1].Clo == nil && !isRefType(fn.Signature.Results().At(0).Type()) {
		// util.EmptyOr(v, fallback): fallback when v is the zero value, else v -
		// one value instead of two paths (the function is a single comparison)
		rt := fn.Signature.Results().At(0).Type()
		zero := x.d.zero(rt)
		if eq(args[0].T, zero) == "true" {
			return single(st, args[1]), true
		}
		r := args[0]
		r.T = ite(eq(args[0].T, zero), args[1].T, args[0].T)
		r.Addr, r.Inner, r.Fresh, r.Origin = nil, nil, false, ""
		if _, isPtr := types.Unalias(rt).Underlying().(*types.Pointer); isPtr {
			r.MaybeNil = args[0].MaybeNil && args[1].MaybeNil
		}
		return single(st, r), true
	}
	switch name {
	case "strings.Count":
		// library contract: non-overlapping occurrences of a non-empty
		// separator fit into the string (r * len(sep) <= len(s), r >= 0)
		r := x.ufApply(st, "ext."+x.fnShort(fn), args, fn.Signature.Results())
		st.assume(fmt.Sprintf("(>= %s 0)", r.T))
		st.assume(implies(fmt.Sprintf("(>= (strlen %s) 1)", args[1].T), fmt.Sprintf("(<= %s (strlen %s))", r.T, args[0].T)))
		return single(st, r), true
	case "context.WithValue":
		// library contract: Value(WithValue(p,k,v), k) == v; other keys see the parent
		r := x.ufApply(st, "ctx.with", args, fn.Signature.Results())
		vf := x.d.fun("ctx.value", []Sort{SIface, SIface}, SIface)
		st.assume(eq(app(vf, r.T, args[1].T), args[2].T))
		st.assume(fmt.Sprintf("(forall ((k Iface)) (! (=> (not (= k %s)) (= (%s %s k) (%s %s k))) :pattern ((%s %s k))))", args[1].T, vf, r.T, vf, args[0].T, vf, r.T))
		st.assume(not(eq(r.T, "inil")))
		if args[2].Inner != nil {
			// remember the dynamic type of the stored value
			x.mu.Lock()
			x.ctxInner[app(vf, r.T, args[1].T)] = *args[2].Inner
			x.mu.Unlock()
		}
		return single(st, r), true
	case "(*net/http.Request).Clone", "(*net/http.Request).WithContext":
		// library contract: a copy of the request whose Context() is the given one
		rt := fn.Signature.Results().At(0).Type()
		el := rt.(*types.Pointer).Elem()
		ref := x.allocObj(st, el, false)
		x.storeStruct(st, ref, el, x.loadStruct(st, args[0].T, el))
		cf := x.d.fun("ext."+x.fnShort(x.prog.LookupMethod(rt, nil, "Context"))+".r0", []Sort{SInt}, SIface)
		st.assume(eq(app(cf, ref), args[1].T))
		return single(st, Val{T: ref, S: SInt, Ty: rt, Fresh: true, Addr: &Addr{Kind: AObj, Ref: ref, Ty: el, Fresh: true}}), true
	}
	if (name == "strings.Compare" || name == "cmp.Compare[string]") && len(args) == 2 {
		return single(st, x.modelStrCompare(st, args[0], args[1], fn.Signature.Results().At(0).Type())), true
	}
	if name == "strings.HasPrefix" {
		_, hp := x.strOrderAxioms()
		return single(st, Val{T: app(hp, args[0].T, args[1].T), S: SBool, Ty: types.Typ[types.Bool]}), true
	}
	if strings.HasPrefix(name, "slices.Equal[") && len(args) == 2 && args[0].S == args[1].S {
		r := x.ufApply(st, "ext."+x.fnShort(fn), args, fn.Signature.Results())
		st.assume(implies(eq(args[0].T, args[1].T), r.T))
		return single(st, r), true
	}
	if m, ok := modelTable[name]; ok {
		return m(x, fr, st, fn, args, site), true
	}
	if noopPkgs[pkgPathOf(fn)] {
		return single(st, x.freshResults(st, fn.Signature.Results())), true
	}
	if strings.HasPrefix(name, "(*sync/atomic.") {
		return x.modelAtomic(fr, st, fn, args, site), true
	}
	if strings.HasPrefix(name, "sync/atomic.") && len(args) >= 1 && args[0].Addr != nil {
		// function-style atomics on a plain variable / field: sequentially
		// consistent load / store of that location (A-SEQ)
		op := fn.Name()
		a := x.addrOf(args[0])
		rt := fn.Signature.Results()
		switch {
		case strings.HasPrefix(op, "Load"):
			return single(st, x.load(st, a, rt.At(0).Type())), true
		case strings.HasPrefix(op, "Store") && len(args) == 2:
			x.storeAddr(st, a, args[1], site)
			return single(st, Val{T: "unit", S: SUnit}), true
		case strings.HasPrefix(op, "Add") && len(args) == 2 && args[1].S == SInt:
			cur := x.load(st, a, rt.At(0).Type())
			nv := Val{T: fmt.Sprintf("(+ %s %s)", cur.T, args[1].T), S: SInt, Ty: rt.At(0).Type()}
			x.storeAddr(st, a, nv, site)
			return single(st, nv), true
		case strings.HasPrefix(op, "Swap") && len(args) == 2:
			cur := x.load(st, a, rt.At(0).Type())
			x.storeAddr(st, a, args[1], site)
			return single(st, cur), true
		case strings.HasPrefix(op, "CompareAndSwap") && len(args) == 3:
			cur := x.load(st, a, args[1].Ty)
			okc := eq(cur.T, args[1].T)
			nv := Val{T: ite(okc, args[2].T, cur.T), S: cur.S, Ty: cur.Ty}
			x.storeAddr(st, a, nv, site)
			return single(st, Val{T: okc, S: SBool, Ty: types.Typ[types.Bool]}), true
		}
	}
	return nil, false
}

func (x *Run) modelInvoke(fr *Frame, st *State, recv Val, m *types.Func, args []Val, site ssa.Instruction) ([]Outcome, bool) {
	full := m.FullName()
	switch full {
	case "(context.Context).Value":
		vf := x.d.fun("ctx.value", []Sort{SIface, SIface}, SIface)
		t := app(vf, recv.T, args[0].T)
		v := Val{T: t, S: SIface, Ty: m.Type().(*types.Signature).Results().At(0).Type()}
		return single(st, v), true
	case "(net.Error).Timeout", "(net.Error).Temporary":
		// attributes of an error value: deterministic functions of the value
		f := x.d.fun("neterr."+strings.ToLower(m.Name()), []Sort{SIface}, SBool)
		r := Val{T: app(f, recv.T), S: SBool, Ty: types.Typ[types.Bool]}
		if !fr.inPure() {
			st.events = append(st.events, Event{Name: "invoke:" + full, Args: append([]Val{recv}, args...), Ret: r})
		}
		return single(st, r), true
	case "(error).Error":
		f := x.d.fun("errmsg", []Sort{SIface}, SStr)
		return single(st, Val{T: app(f, recv.T), S: SStr, Ty: types.Typ[types.String]}), true
	}
	return nil, false
}

func modelNoop(x *Run, fr *Frame, st *State, fn *ssa.Function, args []Val, site ssa.Instruction) []Outcome {
	return single(st, Val{T: "unit", S: SUnit})
}

func modelFresh(x *Run, fr *Frame, st *State, fn *ssa.Function, args []Val, site ssa.Instruction) []Outcome {
	if fr.inPure() {
		return single(st, x.ufApply(st, "ext."+x.fnShort(fn), args, fn.Signature.Results()))
	}
	r := x.freshResults(st, fn.Signature.Results())
	st.events = append(st.events, Event{Name: "call:" + fn.String(), Args: args, Ret: r})
	return single(st, r)
}

func modelUF(name string) modelFn {
	return func(x *Run, fr *Frame, st *State, fn *ssa.Function, args []Val, site ssa.Instruction) []Outcome {
		return single(st, x.ufApply(st, "m."+name, args, fn.Signature.Results()))
	}
}

func modelStrEq(x *Run, fr *Frame, st *State, fn *ssa.Function, args []Val, site ssa.Instruction) []Outcome {
	return single(st, Val{T: eq(args[0].T, args[1].T), S: SBool, Ty: types.Typ[types.Bool]})
}

func modelToLower(x *Run, fr *Frame, st *State, fn *ssa.Function, args []Val, site ssa.Instruction) []Outcome {
	f := x.d.fun("m.tolower.r0", []Sort{SStr}, SStr)
	x.d.raw("ax.tolower.idem", fmt.Sprintf("(assert (forall ((s Str)) (! (= (%s (%s s)) (%s s)) :pattern ((%s s)))))", f, f, f, f))
	x.d.raw("ax.tolower.len", fmt.Sprintf("(assert (forall ((s Str)) (! (= (strlen (%s s)) (strlen s)) :pattern ((%s s)))))", f, f))
	return single(st, Val{T: app(f, args[0].T), S: SStr, Ty: types.Typ[types.String]})
}

// reflect.TypeOf(x): a deterministic function of x's dynamic type that is nil
// exactly when x is the nil interface value - so a method called on the result
// (Elem, Name, ...) is an obligation when x may be nil (an unexpected message
// decoded from the body "null").
func modelTypeOf(x *Run, fr *Frame, st *State, fn *ssa.Function, args []Val, site ssa.Instruction) []Outcome {
	r := x.ufApply(st, "ext."+x.fnShort(fn), args, fn.Signature.Results())
	if len(args) == 1 && args[0].S == SIface && r.S == SIface {
		st.assume(eq(eq(args[0].T, "inil"), eq(r.T, "inil")))
		// a bare parameter of the function is covered by A-NONNIL (a helper that
		// inspects the type of its argument has "argument not nil" as its implicit
		// precondition; transporterImpl.Dispatch has no caller in frp at all); a
		// value that came out of a call or a decoder may be nil
		r.NilIface = !strings.HasPrefix(args[0].T, "p_")
	}
	if !fr.inPure() {
		st.events = append(st.events, Event{Name: "call:" + fn.String(), Args: args, Ret: r})
	}
	return single(st, r)
}

func modelNewError(x *Run, fr *Frame, st *State, fn *ssa.Function, args []Val, site ssa.Instruction) []Outcome {
	if fr.inPure() {
		return single(st, x.ufApply(st, "ext."+x.fnShort(fn), args, fn.Signature.Results()))
	}
	c := x.d.fresh("err", SInt)
	tag := x.d.tag(types.NewPointer(types.Typ[types.String])) // errorString stand-in
	return single(st, Val{T: fmt.Sprintf("(ibox %d %s)", tag, c), S: SIface, Ty: fn.Signature.Results().At(0).Type()})
}

func modelSprintf(x *Run, fr *Frame, st *State, fn *ssa.Function, args []Val, site ssa.Instruction) []Outcome {
	// deterministic in (format, element values) when the varargs are known
	var parts []Val
	parts = append(parts, args[0])
	if len(args) > 1 && args[1].Tup != nil {
		for _, e := range args[1].Tup {
			if e.S != "" {
				parts = append(parts, e)
			}
		}
	} else if len(args) > 1 {
		parts = append(parts, args[1])
	}
	r := x.ufApply(st, fmt.Sprintf("m.sprintf%d", len(parts)), parts, fn.Signature.Results())
	if f, ok := x.litString(args[0].T); ok && f == "%x" && len(parts) == 2 && parts[1].Inner != nil && x.d.slices[parts[1].Inner.S] != "" {
		// hex of a byte slice: two digits per byte
		st.assume(eq(app("strlen", r.T), fmt.Sprintf("(* 2 %s)", x.sliceLen(*parts[1].Inner))))
	}
	return single(st, r)
}

func modelOnceDo(x *Run, fr *Frame, st *State, fn *ssa.Function, args []Val, site ssa.Instruction) []Outcome {
	// Once.Do(f): f runs at most once. Ghost flag per Once object.
	x.arrSort("OnceDone", "(Array Int Bool)")
	key := x.ptrTerm(x.addrOf(args[0]))
	done := sel(x.arr(st, "OnceDone"), key)
	var outs []Outcome
	if x.newPath() {
		s2 := st.clone()
		s2.assumeK(done, 'c')
		s2.trace = append(s2.trace, "once:skip")
		outs = append(outs, Outcome{st: s2, ret: Val{T: "unit", S: SUnit}})
	}
	st.assumeK(not(done), 'c')
	st.trace = append(st.trace, "once:run")
	x.setArr(st, "OnceDone", store(x.arr(st, "OnceDone"), key, "true"))
	res := x.callValue(fr, st, args[1], nil, nil, site)
	for _, r := range res {
		r.ret = Val{T: "unit", S: SUnit}
		outs = append(outs, r)
	}
	return outs
}

func modelAtomicValueStore(x *Run, fr *Frame, st *State, fn *ssa.Function, args []Val, site ssa.Instruction) []Outcome {
	x.arrSort("AtomicValue", "(Array Int Iface)")
	key := x.ptrTerm(x.addrOf(args[0]))
	x.setArr(st, "AtomicValue", store(x.arr(st, "AtomicValue"), key, args[1].T))
	st.events = append(st.events, Event{Name: "atomic.Value.Store", Args: args})
	return single(st, Val{T: "unit", S: SUnit})
}

func modelAtomicValueLoad(x *Run, fr *Frame, st *State, fn *ssa.Function, args []Val, site ssa.Instruction) []Outcome {
	x.arrSort("AtomicValue", "(Array Int Iface)")
	key := x.ptrTerm(x.addrOf(args[0]))
	return single(st, Val{T: sel(x.arr(st, "AtomicValue"), key), S: SIface, Ty: fn.Signature.Results().At(0).Type()})
}

func (x *Run) modelAtomic(fr *Frame, st *State, fn *ssa.Function, args []Val, site ssa.Instruction) []Outcome {
	// typed atomics (atomic.Int32, atomic.Bool, ...): value cell keyed by address
	name := fn.Name()
	rt := fn.Signature.Results()
	arrName := "Atomic." + shortTypeName(fn.Signature.Recv().Type())
	var vs Sort = SInt
	if strings.Contains(fn.String(), "atomic.Bool") {
		vs = SBool
	}
	x.arrSort(arrName, Sort(fmt.Sprintf("(Array Int %s)", vs)))
	key := x.ptrTerm(x.addrOf(args[0]))
	cur := sel(x.arr(st, arrName), key)
	switch name {
	case "Load":
		v := Val{T: cur, S: vs, Ty: rt.At(0).Type()}
		x.assumeType(st, v)
		return single(st, v)
	case "Store":
		x.setArr(st, arrName, store(x.arr(st, arrName), key, args[1].T))
		return single(st, Val{T: "unit", S: SUnit})
	case "Add":
		nv := fmt.Sprintf("(+ %s %s)", cur, args[1].T)
		x.setArr(st, arrName, store(x.arr(st, arrName), key, nv))
		return single(st, Val{T: nv, S: vs, Ty: rt.At(0).Type()})
	case "Swap":
		x.setArr(st, arrName, store(x.arr(st, arrName), key, args[1].T))
		return single(st, Val{T: cur, S: vs, Ty: rt.At(0).Type()})
	case "CompareAndSwap":
		okc := eq(cur, args[1].T)
		x.setArr(st, arrName, store(x.arr(st, arrName), key, ite(okc, args[2].T, cur)))
		return single(st, Val{T: okc, S: SBool, Ty: types.Typ[types.Bool]})
	}
	return single(st, x.freshResults(st, rt))
}

// ---- locks ----

func (x *Run) lockOp(fr *Frame, st *State, mu Val, mode int, site ssa.Instruction) []Outcome {
	a := x.addrOf(mu)
	key := x.lockKey(a)
	unit := Val{T: "unit", S: SUnit}
	if fr.inPure() {
		return single(st, unit)
	}
	if st.held[key] != 0 {
		// re-entrant acquisition of a non-reentrant mutex: self-deadlock
		x.obligeStatic(st, "lock."+x.fnShort(fr.fn)+".no-self-deadlock", "lock", false, site.Pos(), "mutex acquired while already held on this path")
	}
	// lock order: this mutex is taken while the ones in st.held are held
	thisName := x.mutexName(a)
	if thisName != "" {
		for hk, hm := range st.held {
			if hm != 0 && hk != key {
				if hn := lockNameOf(x, hk); hn != "" && hn != thisName {
					recordLockEdge(hn, thisName, x.fnShort(fr.fn), x.posStr(site.Pos()))
				}
			}
		}
		lockNames.Store(key, thisName)
	}
	st.held[key] = mode
	// the monitor's guarded state: arbitrary on (re-)acquisition, invariant holds
	owner, mfield := x.mutexOwner(a)
	if owner != nil {
		if st.released[key] {
			stt, _ := structOf(owner.Ty)
			for i := 0; i < stt.NumFields(); i++ {
				if x.spec.guardOf(owner.Ty, i) == mfield {
					x.havocFieldContents(st, owner.Ref, owner.Ty, i)
				}
			}
		}
		if !owner.Fresh {
			for _, inv := range x.invariantsOf(owner.Ty, mfield) {
				x.assumeInvariant(fr, st, inv, owner)
			}
		}
	}
	if owner != nil {
		// remember lock-time values of guarded integer fields (NetDelta)
		stt, _ := structOf(owner.Ty)
		for i := 0; i < stt.NumFields(); i++ {
			if x.spec.guardOf(owner.Ty, i) == mfield && x.d.sortOf(stt.Field(i).Type()) == SInt && !isRefType(stt.Field(i).Type()) {
				st.ghost["lockval:"+x.fieldArr(owner.Ty, i)+":"+owner.Ref] = x.loadField(st, owner.Ref, owner.Ty, i).T
			}
		}
	}
	st.trace = append(st.trace, "lock")
	return single(st, unit)
}

func (x *Run) unlockOp(fr *Frame, st *State, mu Val, mode int, site ssa.Instruction) []Outcome {
	a := x.addrOf(mu)
	key := x.lockKey(a)
	unit := Val{T: "unit", S: SUnit}
	if fr.inPure() {
		return single(st, unit)
	}
	if st.held[key] == 0 {
		x.obligeStatic(st, "lock."+x.fnShort(fr.fn)+".unlock-held", "lock", false, site.Pos(), "unlock of a mutex not held on this path")
	}
	owner, mfield := x.mutexOwner(a)
	if owner != nil && st.held[key] == 1 {
		for _, inv := range x.invariantsOf(owner.Ty, mfield) {
			x.checkInvariant(fr, st, inv, owner, site)
		}
	}
	if owner != nil && st.held[key] == 1 {
		stt, _ := structOf(owner.Ty)
		for i := 0; i < stt.NumFields(); i++ {
			k := x.fieldArr(owner.Ty, i) + ":" + owner.Ref
			if lv, ok := st.ghost["lockval:"+k]; ok && x.spec.guardOf(owner.Ty, i) == mfield {
				cur := x.loadField(st, owner.Ref, owner.Ty, i).T
				prev := st.ghost["delta:"+k]
				if prev == "" {
					prev = "0"
				}
				if cur != lv {
					st.ghost["delta:"+k] = fmt.Sprintf("(+ %s (- %s %s))", prev, cur, lv)
				} else {
					st.ghost["delta:"+k] = prev
				}
				delete(st.ghost, "lockval:"+k)
			}
		}
	}
	delete(st.held, key)
	st.released[key] = true
	return single(st, unit)
}

// mutexOwner: if the mutex address is field m of object o, return o and m.
func (x *Run) mutexOwner(a *Addr) (*Addr, int) {
	if a.Kind == AField && len(a.Sel) == 0 {
		return &Addr{Kind: AObj, Ref: a.Ref, Ty: a.Ty, Fresh: a.Fresh}, a.Field
	}
	return nil, -1
}

func (x *Run) invariantsOf(t types.Type, mfield int) []*ssa.Function {
	stt, _ := structOf(t)
	n, ok := types.Unalias(t).(*types.Named)
	if !ok || n.Obj().Pkg() == nil {
		return nil
	}
	key := n.Obj().Pkg().Path() + "." + n.Obj().Name() + "." + stt.Field(mfield).Name()
	return x.spec.invariants[key]
}

func (x *Run) invArgs(st *State, inv *ssa.Function, owner *Addr, bound bool) ([]Val, []string, []Sort, []string) {
	recv := Val{T: owner.Ref, S: SInt, Ty: inv.Params[0].Type(), Addr: &Addr{Kind: AObj, Ref: owner.Ref, Ty: owner.Ty}}
	args := []Val{recv}
	var names []string
	var sorts []Sort
	var guards []string
	for i := 1; i < len(inv.Params); i++ {
		tmp := newState()
		q := x.freshVal(tmp, "iq", inv.Params[i].Type())
		if bound {
			names = append(names, q.T)
			sorts = append(sorts, q.S)
			for _, g := range tmp.pc {
				guards = append(guards, pcPlain(g))
			}
		} else {
			for _, g := range tmp.pc {
				st.assume(pcPlain(g))
			}
		}
		args = append(args, q)
	}
	return args, names, sorts, guards
}

func (x *Run) assumeInvariant(fr *Frame, st *State, inv *ssa.Function, owner *Addr) {
	args, names, sorts, guards := x.invArgs(st, inv, owner, true)
	t := x.evalPure(fr, st, inv, args, names)
	st.assume(forall(names, sorts, implies(and(guards...), t)))
}

func (x *Run) checkInvariant(fr *Frame, st *State, inv *ssa.Function, owner *Addr, site ssa.Instruction) {
	args, _, _, _ := x.invArgs(st, inv, owner, false)
	t := x.evalPure(fr, st, inv, args, nil)
	x.oblige(st, "inv."+x.fnShort(fr.fn)+"."+inv.Name(), "inv", t, site.Pos(), "monitor invariant at unlock")
}

// ---- lock order ----

// Edges "mutex B is acquired while mutex A is held", by type and field, collected
// over every unit of a run (direct Lock calls on explored paths, and calls to
// functions whose static lock set is non-empty while something is held).
type lockEdge struct{ From, To, Fn, Pos string }

var (
	lockNames  sync.Map // lock key -> "Type.field"
	lockEdgeMu sync.Mutex
	lockEdges  = map[string]lockEdge{}
)

func lockNameOf(x *Run, key string) string {
	if v, ok := lockNames.Load(key); ok {
		return v.(string)
	}
	return ""
}

func recordLockEdge(from, to, fn, pos string) {
	lockEdgeMu.Lock()
	defer lockEdgeMu.Unlock()
	k := from + " -> " + to
	if _, ok := lockEdges[k]; !ok {
		lockEdges[k] = lockEdge{from, to, fn, pos}
	}
}

// mutexName: "pkg.Type.field" for a mutex that is a field of a struct object.
func (x *Run) mutexName(a *Addr) string {
	if a == nil || a.Kind != AField || len(a.Sel) != 0 {
		return ""
	}
	stt, ok := structOf(a.Ty)
	if !ok {
		return ""
	}
	return shortTypeName(types.Unalias(a.Ty)) + "." + stt.Field(a.Field).Name()
}

var staticLockCache sync.Map

// staticLocks: mutexes (by type and field) that fn or its static callees inside
// frp may acquire.
func (x *Run) staticLocks(fn *ssa.Function, depth int, seen map[*ssa.Function]bool) map[string]bool {
	if v, ok := staticLockCache.Load(fn); ok && depth == 0 {
		return v.(map[string]bool)
	}
	out := map[string]bool{}
	if fn == nil || seen[fn] || depth > 6 || len(fn.Blocks) == 0 {
		return out
	}
	seen[fn] = true
	for _, b := range fn.Blocks {
		for _, ins := range b.Instrs {
			var cc *ssa.CallCommon
			switch c := ins.(type) {
			case *ssa.Call:
				cc = &c.Call
			case *ssa.Defer:
				cc = &c.Call
			}
			if cc == nil || cc.IsInvoke() {
				continue
			}
			callee := cc.StaticCallee()
			if callee == nil {
				continue
			}
			switch callee.String() {
			case "(*sync.Mutex).Lock", "(*sync.RWMutex).Lock", "(*sync.RWMutex).RLock":
				if len(cc.Args) > 0 {
					if fa, ok := cc.Args[0].(*ssa.FieldAddr); ok {
						if pt, ok := fa.X.Type().Underlying().(*types.Pointer); ok {
							if stt, ok := structOf(pt.Elem()); ok {
								out[shortTypeName(types.Unalias(pt.Elem()))+"."+stt.Field(fa.Field).Name()] = true
							}
						}
					}
				}
				continue
			}
			if strings.HasPrefix(pkgPathOf(callee), frpPrefix) && pkgPathOf(callee) != verifPkg {
				for k := range x.staticLocks(callee, depth+1, seen) {
					out[k] = true
				}
			}
		}
	}
	if depth == 0 {
		staticLockCache.Store(fn, out)
	}
	return out
}

// noteCallUnderLock: fn is called while locks are held on this path.
func (x *Run) noteCallUnderLock(fr *Frame, st *State, fn *ssa.Function, site ssa.Instruction) {
	if len(st.held) == 0 || fn == nil || fr.inPure() || site == nil {
		return
	}
	var heldNames []string
	for hk, hm := range st.held {
		if hm != 0 {
			if hn := lockNameOf(x, hk); hn != "" {
				heldNames = append(heldNames, hn)
			}
		}
	}
	if len(heldNames) == 0 {
		return
	}
	for to := range x.staticLocks(fn, 0, map[*ssa.Function]bool{}) {
		for _, from := range heldNames {
			if from != to {
				recordLockEdge(from, to, x.fnShort(fr.fn), x.posStr(site.Pos()))
			}
		}
	}
}
