package main

// Static may-write analysis over SSA: which heap arrays a function may modify.

import (
	"go/constant"
	"go/types"
	"strings"

	"golang.org/x/tools/go/ssa"
)

type ModSet struct {
	Arrs            map[string]bool
	Top             bool
	CellVals        map[ssa.Value]bool // Allocs stored to (for loop havoc)
	FreeVarsWritten map[*ssa.FreeVar]bool
	Why             string
	knownParams     map[*ssa.Function]bool // callees whose function-typed parameters are known closures at the call site
	Preserves       []string               // when Top comes only from contracts with a preserves clause
	starOnly        bool
	loopScan        bool // computing a loop's mod-set: objects allocated before the loop are not fresh
}

func newModSet() *ModSet {
	return &ModSet{Arrs: map[string]bool{}, CellVals: map[ssa.Value]bool{}, FreeVarsWritten: map[*ssa.FreeVar]bool{}}
}

func (x *Run) modSet(fn *ssa.Function) *ModSet {
	x.mu.Lock()
	if ms, ok := x.modCache[fn]; ok {
		x.mu.Unlock()
		return ms
	}
	x.mu.Unlock()
	ms := newModSet()
	seen := map[*ssa.Function]bool{fn: true}
	x.modFunc(fn, ms, seen, 0)
	x.mu.Lock()
	x.modCache[fn] = ms
	x.mu.Unlock()
	return ms
}

func (x *Run) modFunc(fn *ssa.Function, ms *ModSet, seen map[*ssa.Function]bool, depth int) {
	for _, b := range fn.Blocks {
		for _, ins := range b.Instrs {
			x.modInstr(ins, ms, seen, depth)
		}
	}
}

func (x *Run) modStoreTarget(addr ssa.Value, ms *ModSet) {
	switch a := addr.(type) {
	case *ssa.FieldAddr:
		// nested by-value structs live inside the outermost heap field
		for {
			inner, ok := a.X.(*ssa.FieldAddr)
			if !ok {
				break
			}
			a = inner
		}
		pt := a.X.Type().Underlying().(*types.Pointer).Elem()
		if al, ok := a.X.(*ssa.Alloc); ok {
			if !isStruct(al.Type().(*types.Pointer).Elem()) {
				ms.CellVals[al] = true
			} else if !ms.loopScan {
				// a write to an object allocated by this very function: objects that
				// existed before the call are unaffected
				return
			}
		}
		x.modField(pt, a.Field, ms)
	case *ssa.Alloc:
		el := a.Type().(*types.Pointer).Elem()
		if isStruct(el) {
			if ms.loopScan {
				x.modWholeStruct(el, ms)
			}
		} else {
			ms.CellVals[a] = true
		}
	case *ssa.FreeVar:
		ms.FreeVarsWritten[a] = true
		el := a.Type().Underlying().(*types.Pointer).Elem()
		if isStruct(el) {
			x.modWholeStruct(el, ms)
		}
	case *ssa.IndexAddr:
		// element of local array / slice: slices are values; arrays are cells
		if al, ok := a.X.(*ssa.Alloc); ok {
			ms.CellVals[al] = true
		}
	case *ssa.Global:
		// globals are tracked in State.globals; not heap arrays
	default:
		// store through a pointer value
		if p, ok := addr.Type().Underlying().(*types.Pointer); ok {
			if isStruct(p.Elem()) {
				x.modWholeStruct(p.Elem(), ms)
			} else {
				ms.Arrs[x.ptrArr(p.Elem())] = true
			}
		}
	}
}

func (x *Run) modField(structTy types.Type, field int, ms *ModSet) {
	stt, ok := structOf(structTy)
	if !ok {
		return
	}
	ft := stt.Field(field).Type()
	if x.d.sortOf(ft) == SUnit {
		return
	}
	ms.Arrs[x.fieldArr(structTy, field)] = true
}

func (x *Run) modWholeStruct(t types.Type, ms *ModSet) {
	stt, ok := structOf(t)
	if !ok {
		return
	}
	for i := 0; i < stt.NumFields(); i++ {
		x.modField(t, i, ms)
	}
}

func (x *Run) modMap(t types.Type, ms *ModSet) {
	mt := mapTypeOf(t)
	if mt == nil {
		return
	}
	a := x.mapArrs(mt)
	ms.Arrs[a.dom] = true
	ms.Arrs[a.val] = true
	ms.Arrs[a.ln] = true
}

func (x *Run) modInstr(ins ssa.Instruction, ms *ModSet, seen map[*ssa.Function]bool, depth int) {
	switch i := ins.(type) {
	case *ssa.Store:
		x.modStoreTarget(i.Addr, ms)
	case *ssa.MapUpdate:
		x.modMap(i.Map.Type(), ms)
	case *ssa.MakeMap:
		// a new map's rows: maps that existed before are unaffected
		if ms.loopScan {
			x.modMap(i.Type(), ms)
		}
	case *ssa.MakeChan:
		if ms.loopScan {
			ms.Arrs[x.chClosedArr(i.Type())] = true
			ms.Arrs[x.chCapArr()] = true
		}
	case *ssa.Alloc:
		el := i.Type().(*types.Pointer).Elem()
		if isStruct(el) && ms.loopScan {
			x.modWholeStruct(el, ms)
		}
	case *ssa.Call:
		x.modCall(&i.Call, ms, seen, depth, i)
	case *ssa.Defer:
		x.modCall(&i.Call, ms, seen, depth, i)
	case *ssa.MakeClosure:
		// effects of a closure count when it is called or deferred here, or handed to
		// sync.Once.Do; closures that are only stored / registered do not run now
		if fn, ok := i.Fn.(*ssa.Function); ok && !seen[fn] {
			runs := false
			for _, r := range *i.Referrers() {
				switch c := r.(type) {
				case *ssa.Call:
					if c.Call.Value == ssa.Value(i) {
						runs = true
					}
					if f := c.Call.StaticCallee(); f != nil && f.String() == "(*sync.Once).Do" {
						runs = true
					}
				case *ssa.Defer:
					if c.Call.Value == ssa.Value(i) {
						runs = true
					}
				case *ssa.Store, *ssa.Phi, *ssa.MakeInterface, *ssa.ChangeType:
					if ms.loopScan {
						runs = true // may be called through a variable inside the loop
					}
				}
			}
			if runs {
				seen[fn] = true
				x.modFunc(fn, ms, seen, depth+1)
			}
		}
	}
}

func (x *Run) modCall(cc *ssa.CallCommon, ms *ModSet, seen map[*ssa.Function]bool, depth int, site any) {
	if cc.IsInvoke() {
		full := cc.Method.FullName()
		if x.spec.getters[full] {
			return
		}
		if con := x.spec.contractFor(full); con != nil {
			for _, m := range con.Modifies {
				if m == "*" {
					if !ms.Top {
						ms.Preserves = con.Preserves
					} else {
						ms.Preserves = intersectStr(ms.Preserves, con.Preserves)
					}
					ms.Top = true
					ms.starOnly = true
					ms.Why = "contract modifies * " + full
				} else {
					ms.Arrs[m] = true
				}
			}
			return
		}
		declaredInFrp := false
		if named, ok := types.Unalias(cc.Value.Type()).(*types.Named); ok && named.Obj().Pkg() != nil {
			declaredInFrp = strings.HasPrefix(named.Obj().Pkg().Path(), frpPrefix)
			if x.spec.effectFree[named.Obj().Pkg().Path()+"."+named.Obj().Name()] {
				declaredInFrp = false
			}
		}
		if declaredInFrp {
			ms.setTop("invoke " + full)
		}
		return
	}
	if b, ok := cc.Value.(*ssa.Builtin); ok {
		switch b.Name() {
		case "delete":
			x.modMap(cc.Args[0].Type(), ms)
		case "close":
			ms.Arrs[x.chClosedArr(cc.Args[0].Type())] = true
			if ld, ok := cc.Args[0].(*ssa.UnOp); ok {
				if fa, ok := ld.X.(*ssa.FieldAddr); ok {
					pt := fa.X.Type().Underlying().(*types.Pointer).Elem()
					name := "ChClosed@" + fieldArrayName(pt, fa.Field)
					x.arrSort(name, "(Array Int Bool)")
					ms.Arrs[name] = true
				}
			}
		}
		return
	}
	fn := cc.StaticCallee()
	if fn == nil {
		if mc, ok := cc.Value.(*ssa.MakeClosure); ok {
			fn = mc.Fn.(*ssa.Function)
		}
	}
	if fn == nil {
		// a call through a func-typed field that has a specification function
		if ld, ok := cc.Value.(*ssa.UnOp); ok {
			if fa, ok := ld.X.(*ssa.FieldAddr); ok {
				pt := fa.X.Type().Underlying().(*types.Pointer).Elem()
				if sf := x.spec.fieldFns[fieldArrayName(pt, fa.Field)]; sf != nil {
					if !seen[sf] {
						seen[sf] = true
						x.modFunc(sf, ms, seen, depth+1)
					}
					return
				}
			}
		}
		if ci, ok := site.(ssa.Instruction); ok {
			if sf := x.spec.dynCallSpec(ci); sf != nil {
				if !seen[sf] {
					seen[sf] = true
					x.modFunc(sf, ms, seen, depth+1)
				}
				return
			}
		}
		// dynamic function value: unknown
		if prm, isParamOrField := cc.Value.(*ssa.Parameter); isParamOrField {
			if ms.knownParams[prm.Parent()] {
				return
			}
			ms.setTop("dynamic call of parameter")
			return
		}
		ms.setTop("dynamic call")
		return
	}
	if seen[fn] {
		return
	}
	pp := pkgPathOf(fn)
	if pp == verifPkg {
		if strings.HasPrefix(fn.Name(), "HavocExcept") {
			// specification of unknown code with a stated frame
			keep := constStringsOfVariadic(cc)
			if !ms.Top {
				ms.Preserves = keep
			} else {
				ms.Preserves = intersectStr(ms.Preserves, keep)
			}
			ms.Top = true
			ms.starOnly = true
			ms.Why = "HavocExcept in a specification function"
		}
		return
	}
	if con := x.spec.contractFor(fn.String()); con != nil && con.Modifies != nil {
		for _, m := range con.Modifies {
			ms.Arrs[m] = true
		}
		return
	}
	if x.isModelled(fn) {
		x.modelMod(fn, cc, ms)
		return
	}
	if strings.HasPrefix(pp, frpPrefix) || x.spec.inlineExt(fn, pp) {
		if len(fn.Blocks) == 0 {
			return
		}
		seen[fn] = true
		// function-typed arguments that are closures created at the call site:
		// their effects are included, and the callee's calls of those
		// parameters are then not "unknown"
		allKnown := true
		for ai, a := range cc.Args {
			if _, isSig := types.Unalias(a.Type()).Underlying().(*types.Signature); !isSig {
				continue
			}
			if !calleeCallsParam(fn, ai) {
				continue // the callee only stores / forwards the function value
			}
			switch c := a.(type) {
			case *ssa.MakeClosure:
				if cf, ok := c.Fn.(*ssa.Function); ok && !seen[cf] {
					seen[cf] = true
					x.modFunc(cf, ms, seen, depth+1)
				}
			case *ssa.Function:
				if !seen[c] {
					seen[c] = true
					x.modFunc(c, ms, seen, depth+1)
				}
			default:
				allKnown = false
			}
		}
		if allKnown {
			if ms.knownParams == nil {
				ms.knownParams = map[*ssa.Function]bool{}
			}
			ms.knownParams[fn] = true
		}
		x.modFunc(fn, ms, seen, depth+1)
		return
	}
	// external: A-EXT (no effect on frp state), except out-parameters
	if !x.spec.pureExt(fn) {
		for _, a := range cc.Args {
			t := a.Type()
			if mi, ok := a.(*ssa.MakeInterface); ok {
				t = mi.X.Type()
			}
			if p, ok := types.Unalias(t).Underlying().(*types.Pointer); ok && isStruct(p.Elem()) && strings.HasPrefix(typeKey(p.Elem()), frpPrefix) {
				x.modWholeStruct(p.Elem(), ms)
			}
		}
	}
}

// calleeCallsParam: fn calls (or defers) its i-th parameter directly.
func calleeCallsParam(fn *ssa.Function, i int) bool {
	if i >= len(fn.Params) {
		return true
	}
	p := fn.Params[i]
	for _, r := range *p.Referrers() {
		switch c := r.(type) {
		case *ssa.Call:
			if c.Call.Value == ssa.Value(p) {
				return true
			}
			// forwarded to another function: conservatively "calls"
			for _, a := range c.Call.Args {
				if a == ssa.Value(p) {
					return true
				}
			}
		case *ssa.Defer:
			return true
		case *ssa.Go:
			// runs concurrently: not an effect of this call (A-SEQ)
		case *ssa.MakeClosure:
			return true
		}
	}
	return false
}

func intersectStr(a, b []string) []string {
	var r []string
	for _, x := range a {
		for _, y := range b {
			if x == y {
				r = append(r, x)
			}
		}
	}
	return r
}

// setTop marks the set as "may modify anything" for a reason other than a
// contract with a preserves clause.
func (ms *ModSet) setTop(why string) {
	ms.Top = true
	ms.Preserves = nil
	ms.Why = why
}

// constStringsOfVariadic: the constant strings passed as the variadic argument
// of a call (f("a", "b") is compiled to a slice of a freshly allocated array).
func constStringsOfVariadic(cc *ssa.CallCommon) []string {
	if len(cc.Args) == 0 {
		return nil
	}
	sl, ok := cc.Args[len(cc.Args)-1].(*ssa.Slice)
	if !ok {
		return nil
	}
	al, ok := sl.X.(*ssa.Alloc)
	if !ok || al.Referrers() == nil {
		return nil
	}
	var out []string
	for _, r := range *al.Referrers() {
		ia, ok := r.(*ssa.IndexAddr)
		if !ok || ia.Referrers() == nil {
			continue
		}
		for _, r2 := range *ia.Referrers() {
			if st, ok := r2.(*ssa.Store); ok {
				if c, ok := st.Val.(*ssa.Const); ok && c.Value != nil && c.Value.Kind() == constant.String {
					out = append(out, constant.StringVal(c.Value))
				}
			}
		}
	}
	return out
}
