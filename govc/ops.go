package main

import (
	"fmt"
	"go/token"
	"go/types"
	"os"
	"sort"
	"strings"

	"golang.org/x/tools/go/ssa"
)

type fork struct {
	st  *State
	ret Val
}

// mayPanic: okCond must hold or the instruction panics.
func (x *Run) mayPanic(fr *Frame, st *State, okCond string, kind string, site ssa.Instruction, outs *[]Outcome) {
	if okCond == "true" {
		return
	}
	if fr.underRecover() {
		if x.newPath() {
			ps := st.clone()
			ps.assume(not(okCond))
			ps.trace = append(ps.trace, "panic:"+kind)
			pv := Val{T: fmt.Sprintf("(ibox %d 1)", x.d.tag(types.Typ[types.String])), S: SIface}
			*outs = append(*outs, x.panicUnwind(fr.clone(), ps, pv)...)
		}
		st.assume(okCond)
		return
	}
	if fr.inPure() || fr.inSpec() {
		st.assumeK(okCond, 'c')
		return
	}
	name := fmt.Sprintf("nopanic.%s.%s", x.fnShort(fr.fn), kind)
	x.oblige(st, name, "nopanic", okCond, site.Pos(), kind)
	st.assume(okCond)
}

func (x *Run) panicUnwind(fr *Frame, st *State, pv Val) []Outcome {
	st.ghost["panicking"] = "1"
	st.cells[panicCell] = pv
	var res []Outcome
	outs := x.runDefers(fr, st)
	for _, o := range outs {
		if o.panic {
			res = append(res, o)
			continue
		}
		if o.st.ghost["panicking"] == "1" {
			res = append(res, Outcome{st: o.st, panic: true, pval: pv})
			continue
		}
		// recovered
		if fr.fn.Recover != nil {
			res = append(res, x.runBlock(fr, fr.fn.Recover, 0, o.st)...)
		} else {
			rt := fr.fn.Signature.Results()
			var ret Val
			if rt.Len() == 1 {
				ret = x.zeroVal(rt.At(0).Type())
			} else if rt.Len() > 1 {
				ret = Val{S: "Tuple", Ty: rt}
				for i := 0; i < rt.Len(); i++ {
					ret.Tup = append(ret.Tup, x.zeroVal(rt.At(i).Type()))
				}
			}
			o.st.trace = append(o.st.trace, "recovered")
			res = append(res, Outcome{st: o.st, ret: ret})
		}
	}
	return res
}

var panicCell = &Cell{id: -1, name: "$panic"}

// runDefers executes the frame's deferred calls (LIFO). Outcomes with
// panic=true propagate a new panic raised inside a deferred call.
func (x *Run) runDefers(fr *Frame, st *State) []Outcome {
	states := []Outcome{{st: st}}
	for len(fr.defers) > 0 {
		d := fr.defers[len(fr.defers)-1]
		fr.defers = fr.defers[:len(fr.defers)-1]
		var next []Outcome
		for _, s := range states {
			if s.panic {
				next = append(next, s)
				continue
			}
			// a deferred call runs in a frame whose parent is fr but which must
			// not see fr's own recover flag as "enclosing"
			saved := fr.hasRec
			fr.hasRec = false
			outs := x.callValue(fr, s.st, d.Fn, d.Call, d.Args, d.Site)
			fr.hasRec = saved
			for _, o := range outs {
				next = append(next, Outcome{st: o.st, panic: o.panic, pval: o.pval})
			}
		}
		states = next
	}
	fr.hasRec = false
	return states
}

func (x *Run) binop(fr *Frame, st *State, op token.Token, a, b Val, ty types.Type, site ssa.Instruction, outs *[]Outcome) Val {
	bo := func(t string) Val { return Val{T: t, S: SBool, Ty: ty} }
	if a.S != b.S {
		// interface vs concrete comparisons
		if a.S == SIface && b.S != SIface {
			b = x.box(st, b, a.Ty)
		} else if b.S == SIface && a.S != SIface {
			a = x.box(st, a, b.Ty)
		}
	}
	switch op {
	case token.EQL:
		return bo(eq(a.T, b.T))
	case token.NEQ:
		return bo(not(eq(a.T, b.T)))
	}
	switch a.S {
	case SBool:
		switch op {
		case token.AND, token.LAND:
			return bo(and(a.T, b.T))
		case token.OR, token.LOR:
			return bo(or(a.T, b.T))
		}
	case SStr:
		switch op {
		case token.ADD:
			// "" + x == x == x + ""
			e := x.d.lit("")
			if a.T == e {
				return Val{T: b.T, S: SStr, Ty: ty}
			}
			if b.T == e {
				return Val{T: a.T, S: SStr, Ty: ty}
			}
			r := Val{T: app("strconcat", a.T, b.T), S: SStr, Ty: ty}
			st.assume(implies(eq(a.T, e), eq(r.T, b.T)))
			st.assume(implies(eq(b.T, e), eq(r.T, a.T)))
			st.assume(eq(app("strlen", r.T), fmt.Sprintf("(+ %s %s)", app("strlen", a.T), app("strlen", b.T))))
			return r
		case token.LSS, token.GTR, token.LEQ, token.GEQ:
			lt, _ := x.strOrderAxioms()
			switch op {
			case token.LSS:
				return bo(app(lt, a.T, b.T))
			case token.GTR:
				return bo(app(lt, b.T, a.T))
			case token.LEQ:
				return bo(not(app(lt, b.T, a.T)))
			default:
				return bo(not(app(lt, a.T, b.T)))
			}
		}
	case SInt, SReal:
		arith := func(o string) Val {
			if a.S == SInt {
				if la, ok := litInt(a.T); ok {
					if lb, ok := litInt(b.T); ok {
						switch o {
						case "+":
							return Val{T: intLit(int64(la + lb)), S: SInt, Ty: ty}
						case "-":
							return Val{T: intLit(int64(la - lb)), S: SInt, Ty: ty}
						}
					}
				}
			}
			r := Val{T: fmt.Sprintf("(%s %s %s)", o, a.T, b.T), S: a.S, Ty: ty}
			return r
		}
		switch op {
		case token.ADD:
			return arith("+")
		case token.SUB:
			return arith("-")
		case token.MUL:
			return arith("*")
		case token.LSS:
			return bo(fmt.Sprintf("(< %s %s)", a.T, b.T))
		case token.LEQ:
			return bo(fmt.Sprintf("(<= %s %s)", a.T, b.T))
		case token.GTR:
			return bo(fmt.Sprintf("(> %s %s)", a.T, b.T))
		case token.GEQ:
			return bo(fmt.Sprintf("(>= %s %s)", a.T, b.T))
		case token.QUO:
			if a.S == SReal {
				return arith("/")
			}
			x.mayPanic(fr, st, not(eq(b.T, "0")), "divzero", site, outs)
			return Val{T: goDiv(a.T, b.T), S: SInt, Ty: ty}
		case token.REM:
			x.mayPanic(fr, st, not(eq(b.T, "0")), "divzero", site, outs)
			return Val{T: fmt.Sprintf("(- %s (* %s %s))", a.T, b.T, goDiv(a.T, b.T)), S: SInt, Ty: ty}
		case token.SHL:
			if n, ok := smallLit(b.T); ok {
				return Val{T: fmt.Sprintf("(* %s %d)", a.T, int64(1)<<uint(n)), S: SInt, Ty: ty}
			}
		case token.SHR:
			if n, ok := smallLit(b.T); ok {
				return Val{T: fmt.Sprintf("(div %s %d)", a.T, int64(1)<<uint(n)), S: SInt, Ty: ty}
			}
		}
		if a.S == SInt {
			f := x.d.fun("bitop."+sanitize(op.String()), []Sort{SInt, SInt}, SInt)
			r := Val{T: app(f, a.T, b.T), S: SInt, Ty: ty}
			x.assumeType(st, r)
			if op == token.AND {
				// x & m with m >= 0 lies in [0, m]
				st.assume(implies(fmt.Sprintf("(>= %s 0)", b.T), fmt.Sprintf("(and (>= %s 0) (<= %s %s))", r.T, r.T, b.T)))
			}
			return r
		}
	}
	x.unsupported(fmt.Sprintf("binop %s on %s", op, a.S), site.Pos())
	return x.freshVal(st, "binop", ty)
}

func smallLit(t string) (int, bool) {
	var n int
	if _, err := fmt.Sscanf(t, "%d", &n); err == nil && n >= 0 && n < 62 && fmt.Sprint(n) == t {
		return n, true
	}
	return 0, false
}

// goDiv: Go's truncated division.
func goDiv(a, b string) string {
	return fmt.Sprintf("(ite (>= %s 0) (ite (> %s 0) (div %s %s) (- (div %s (- %s)))) (ite (> %s 0) (- (div (- %s) %s)) (div (- %s) (- %s))))", a, b, a, b, a, b, b, a, b, a, b)
}

func (x *Run) execIndexAddr(fr *Frame, st *State, ins *ssa.IndexAddr, outs *[]Outcome) {
	base := x.val(fr, st, ins.X)
	idx := x.val(fr, st, ins.Index)
	switch t := types.Unalias(ins.X.Type()).Underlying().(type) {
	case *types.Slice:
		x.checkValGuard(fr, st, base, false, ins)
		x.mayPanic(fr, st, fmt.Sprintf("(and (>= %s 0) (< %s %s))", idx.T, idx.T, x.sliceLen(base)), "index", ins, outs)
		b := base
		a := &Addr{Kind: AElem, Slice: &b, Idx: idx.T, Ty: t.Elem()}
		if _, isParam := ins.X.(*ssa.Parameter); !isParam && base.Origin == "" {
			sx := ins.X
			env := fr.env
			a.rebind = func(nv Val) { env[sx] = nv }
		}
		fr.env[ins] = Val{T: "0", S: SInt, Ty: ins.Type(), Addr: a}
	case *types.Pointer:
		arr := t.Elem().Underlying().(*types.Array)
		a := x.addrOf(base)
		x.mayPanic(fr, st, fmt.Sprintf("(and (>= %s 0) (< %s %d))", idx.T, idx.T, arr.Len()), "index", ins, outs)
		if a.Kind == ACell && len(a.Sel) == 0 {
			na := &Addr{Kind: AArrCell, Cell: a.Cell, Idx: idx.T, Ty: arr.Elem()}
			fr.env[ins] = Val{T: x.ptrTerm(na), S: SInt, Ty: ins.Type(), Addr: na}
		} else {
			x.unsupported("index address into non-local array", ins.Pos())
			fr.env[ins] = x.freshVal(st, "idxaddr", ins.Type())
		}
	default:
		x.unsupported("indexaddr on "+ins.X.Type().String(), ins.Pos())
		fr.env[ins] = x.freshVal(st, "idxaddr", ins.Type())
	}
}

func (x *Run) execIndex(fr *Frame, st *State, ins *ssa.Index, outs *[]Outcome) {
	base := x.val(fr, st, ins.X)
	idx := x.val(fr, st, ins.Index)
	switch t := types.Unalias(ins.X.Type()).Underlying().(type) {
	case *types.Basic: // string
		x.mayPanic(fr, st, fmt.Sprintf("(and (>= %s 0) (< %s (strlen %s)))", idx.T, idx.T, base.T), "index", ins, outs)
		f := x.d.fun("strat", []Sort{SStr, SInt}, SInt)
		r := Val{T: app(f, base.T, idx.T), S: SInt, Ty: ins.Type()}
		x.assumeType(st, r)
		fr.env[ins] = r
	case *types.Array:
		x.mayPanic(fr, st, fmt.Sprintf("(and (>= %s 0) (< %s %d))", idx.T, idx.T, t.Len()), "index", ins, outs)
		r := Val{T: sel(base.T, idx.T), S: x.d.sortOf(t.Elem()), Ty: t.Elem()}
		x.assumeType(st, r)
		fr.env[ins] = r
	default:
		x.unsupported("index on "+ins.X.Type().String(), ins.Pos())
		fr.env[ins] = x.freshVal(st, "index", ins.Type())
	}
}

func (x *Run) execLookup(fr *Frame, st *State, ins *ssa.Lookup, outs *[]Outcome) {
	m := x.val(fr, st, ins.X)
	k := x.val(fr, st, ins.Index)
	if mt := mapTypeOf(ins.X.Type()); mt != nil {
		if m.Ty == nil || mapTypeOf(m.Ty) == nil {
			m.Ty = ins.X.Type()
		}
		k = x.coerce(st, k, mt.Key())
		x.checkValGuard(fr, st, m, false, ins)
		v, has := x.mapGet(st, m, k.T)
		// a map / slice / channel stored in a guarded map is protected by the
		// same lock (nested tables); objects pointed to have their own
		if m.Guard != "" && v.Ty != nil {
			switch types.Unalias(v.Ty).Underlying().(type) {
			case *types.Map, *types.Slice:
				v.Guard = m.Guard
			}
		}
		if ins.CommaOk {
			fr.env[ins] = Val{S: "Tuple", Ty: ins.Type(), Tup: []Val{v, {T: has, S: SBool, Ty: types.Typ[types.Bool]}}}
		} else {
			fr.env[ins] = v
		}
		return
	}
	// string index
	x.mayPanic(fr, st, fmt.Sprintf("(and (>= %s 0) (< %s (strlen %s)))", k.T, k.T, m.T), "index", ins, outs)
	f := x.d.fun("strat", []Sort{SStr, SInt}, SInt)
	r := Val{T: app(f, m.T, k.T), S: SInt, Ty: ins.Type()}
	x.assumeType(st, r)
	fr.env[ins] = r
}

func (x *Run) execSlice(fr *Frame, st *State, ins *ssa.Slice, outs *[]Outcome) {
	base := x.val(fr, st, ins.X)
	var lo, hi string
	if ins.Low != nil {
		lo = x.val(fr, st, ins.Low).T
	} else {
		lo = "0"
	}
	switch t := types.Unalias(ins.X.Type()).Underlying().(type) {
	case *types.Slice:
		ln := x.sliceLen(base)
		if ins.High != nil {
			hi = x.val(fr, st, ins.High).T
		} else {
			hi = ln
		}
		// hi may go up to cap; we only know len <= cap, so require hi <= len (conservative)
		x.mayPanic(fr, st, fmt.Sprintf("(and (<= 0 %s) (<= %s %s) (<= %s %s))", lo, lo, hi, hi, ln), "slicebounds", ins, outs)
		if lo == "0" {
			fr.env[ins] = Val{T: x.mkSlice(base.S, x.sliceArr(base), hi), S: base.S, Ty: ins.Type(), Guard: base.Guard}
			return
		}
		sh := x.d.fun("shift."+sortMangle(base.S), []Sort{Sort(fmt.Sprintf("(Array Int %s)", x.d.slices[base.S])), SInt}, Sort(fmt.Sprintf("(Array Int %s)", x.d.slices[base.S])))
		arr := app(sh, x.sliceArr(base), lo)
		x.d.raw("ax."+sh, fmt.Sprintf("(assert (forall ((a (Array Int %s)) (o Int) (i Int)) (! (= (select (%s a o) i) (select a (+ i o))) :pattern ((select (%s a o) i)))))", x.d.slices[base.S], sh, sh))
		fr.env[ins] = Val{T: x.mkSlice(base.S, arr, fmt.Sprintf("(- %s %s)", hi, lo)), S: base.S, Ty: ins.Type(), Guard: base.Guard}
	case *types.Basic: // string
		ln := app("strlen", base.T)
		if ins.High != nil {
			hi = x.val(fr, st, ins.High).T
		} else {
			hi = ln
		}
		x.mayPanic(fr, st, fmt.Sprintf("(and (<= 0 %s) (<= %s %s) (<= %s %s))", lo, lo, hi, hi, ln), "slicebounds", ins, outs)
		f := x.d.fun("substr", []Sort{SStr, SInt, SInt}, SStr)
		r := Val{T: app(f, base.T, lo, hi), S: SStr, Ty: ins.Type()}
		st.assume(eq(app("strlen", r.T), fmt.Sprintf("(- %s %s)", hi, lo)))
		fr.env[ins] = r
	case *types.Pointer: // pointer to array
		arr := t.Elem().Underlying().(*types.Array)
		a := x.addrOf(base)
		if ins.High != nil {
			hi = x.val(fr, st, ins.High).T
		} else {
			hi = fmt.Sprint(arr.Len())
		}
		s := x.d.sortOf(ins.Type())
		if a.Kind == ACell {
			c := st.cells[a.Cell]
			v := Val{T: x.mkSlice(s, c.T, hi), S: s, Ty: ins.Type()}
			if c.Tup != nil && lo == "0" {
				v.Tup = c.Tup // element values (varargs)
			}
			fr.env[ins] = v
		} else {
			fr.env[ins] = x.freshVal(st, "arrslice", ins.Type())
		}
	default:
		x.unsupported("slice of "+ins.X.Type().String(), ins.Pos())
		fr.env[ins] = x.freshVal(st, "slice", ins.Type())
	}
}

func (x *Run) doNext(fr *Frame, st *State, ins *ssa.Next) []fork {
	it := x.val(fr, st, ins.Iter)
	tup := ins.Type().(*types.Tuple)
	var forks []fork
	mk := func(s *State, ok string, k, v Val) fork {
		return fork{s, Val{S: "Tuple", Ty: ins.Type(), Tup: []Val{{T: ok, S: SBool, Ty: types.Typ[types.Bool]}, k, v}}}
	}
	if !x.newPath() {
		return nil
	}
	s2 := st.clone()
	// ok branch
	var k, v Val
	if it.Iter != nil && it.Iter.Map != nil {
		mt := it.Iter.MapTy
		k = x.freshVal(st, "rk", mt.Key())
		st.assume(x.mapHas(st, *it.Iter.Map, k.T))
		// a range statement visits a key at most once ...
		va := x.visitedArr(mt)
		mref := it.Iter.Map.T
		st.assume(not(sel(sel(x.arr(st, va), mref), k.T)))
		x.setArr(st, va, store(x.arr(st, va), mref, store(sel(x.arr(st, va), mref), k.T, "true")))
		// ... and ends only when every remaining key has been visited (Go
		// semantics of range over a map, provided the body adds no entries)
		if !x.loopInsertsInto(ins, mt) {
			ks := x.d.sortOf(mt.Key())
			a := x.mapArrs(mt)
			q := "rvk"
			s2.assume(fmt.Sprintf("(forall ((%s %s)) (! (=> (select (select %s %s) %s) (select (select %s %s) %s)) :pattern ((select (select %s %s) %s))))",
				q, ks, x.arr(s2, a.dom), mref, q, x.arr(s2, va), mref, q, x.arr(s2, va), mref, q))
		}
		vv, _ := x.mapGet(st, *it.Iter.Map, k.T)
		vv.MaybeNil = false
		v = vv
	} else {
		k = x.freshVal(st, "ri", types.Typ[types.Int])
		v = x.freshVal(st, "rr", types.Typ[types.Rune])
	}
	if tup.At(1).Type() == nil || !validType(tup.At(1).Type()) {
		k = Val{T: "0", S: SInt}
	}
	st.trace = append(st.trace, "range:next")
	s2.trace = append(s2.trace, "range:done")
	forks = append(forks, mk(st, "true", k, v))
	forks = append(forks, mk(s2, "false", x.zeroOrDummy(tup.At(1).Type()), x.zeroOrDummy(tup.At(2).Type())))
	return forks
}

// loopInsertsInto: the loop around the Next instruction stores into a map of
// type mt (then "all keys visited" at loop exit is not guaranteed by Go).
func (x *Run) loopInsertsInto(ins *ssa.Next, mt *types.Map) bool {
	li := x.loops(ins.Parent())
	for _, lp := range li.byHeader {
		if !lp.blocks[ins.Block()] {
			continue
		}
		for b := range lp.blocks {
			for _, i2 := range b.Instrs {
				if mu, ok := i2.(*ssa.MapUpdate); ok {
					if m2 := mapTypeOf(mu.Map.Type()); m2 != nil && types.Identical(m2, mt) {
						return true
					}
				}
				if c, ok := i2.(ssa.CallInstruction); ok {
					if _, isB := c.Common().Value.(*ssa.Builtin); !isB {
						// calls may insert as well: look at the static mod-set
						if fn := c.Common().StaticCallee(); fn != nil {
							ms := x.modSet(fn)
							if ms.Top || ms.Arrs[x.mapArrs(mt).dom] {
								return true
							}
						} else {
							return true
						}
					}
				}
			}
		}
	}
	return false
}

func validType(t types.Type) bool {
	if b, ok := t.(*types.Basic); ok && b.Kind() == types.Invalid {
		return false
	}
	return true
}

func (x *Run) zeroOrDummy(t types.Type) Val {
	if t == nil || !validType(t) {
		return Val{T: "0", S: SInt}
	}
	return x.zeroVal(t)
}

func (x *Run) doSelect(fr *Frame, st *State, ins *ssa.Select, outs *[]Outcome) []fork {
	// result tuple: (index int, recvOk bool, r_0 T_0, ...)
	tup := ins.Type().(*types.Tuple)
	var forks []fork
	n := len(ins.States)
	total := n
	if !ins.Blocking {
		total++
	}
	for i := 0; i < total; i++ {
		var s *State
		if i == total-1 {
			s = st
		} else {
			if !x.newPath() {
				continue
			}
			s = st.clone()
		}
		idx := i
		if i == n {
			idx = -1
		}
		ret := Val{S: "Tuple", Ty: ins.Type()}
		ret.Tup = append(ret.Tup, Val{T: intLit(int64(idx)), S: SInt, Ty: types.Typ[types.Int]})
		ok := x.freshVal(s, "selok", types.Typ[types.Bool])
		ret.Tup = append(ret.Tup, ok)
		for j := 2; j < tup.Len(); j++ {
			ret.Tup = append(ret.Tup, x.freshVal(s, "selrecv", tup.At(j).Type()))
		}
		if idx >= 0 {
			sst := ins.States[idx]
			ch := x.val(fr, s, sst.Chan)
			closed := sel(x.arr(s, x.chClosedFor(ch, sst.Chan.Type())), ch.T)
			if sst.Dir == types.SendOnly {
				x.mayPanic(fr, s, not(closed), "send-on-closed", ins, outs)
				s.events = append(s.events, Event{Name: "send", Args: []Val{ch, x.val(fr, s, sst.Send)}})
			} else {
				x.interfere(fr, s)
				if ins.Blocking {
					closed = x.awaitClosed(s, ch, sst.Chan.Type())
				}
				s.assume(implies(not(closed), ok.T))
				if x.onlyClosedEverSignals(ch, sst.Chan.Type()) {
					s.assume(closed)
				}
				// find which recv slot belongs to this state
				slot := 2
				for j := 0; j < idx; j++ {
					if ins.States[j].Dir == types.RecvOnly {
						slot++
					}
				}
				if slot < len(ret.Tup) {
					s.events = append(s.events, Event{Name: recvName(ch), Args: []Val{ch, ret.Tup[slot]}, Ret: ok})
					s.assume(implies(not(ok.T), eq(ret.Tup[slot].T, x.d.zero(tup.At(slot).Type()))))
				}
			}
		}
		if idx < 0 {
			// default branch: no case was ready; a receive from a closed channel
			// is always ready, so none of the receive channels is closed
			for _, sst := range ins.States {
				if sst.Dir == types.RecvOnly {
					ch := x.val(fr, s, sst.Chan)
					s.assume(not(sel(x.arr(s, x.chClosedFor(ch, sst.Chan.Type())), ch.T)))
				}
			}
		}
		s.trace = append(s.trace, fmt.Sprintf("select:%d", idx))
		forks = append(forks, fork{s, ret})
	}
	return forks
}

func (x *Run) doTypeAssert(fr *Frame, st *State, ins *ssa.TypeAssert, outs *[]Outcome) []fork {
	v := x.val(fr, st, ins.X)
	at := ins.AssertedType
	_, toIface := types.Unalias(at).Underlying().(*types.Interface)
	var okCond string
	var res Val
	if toIface {
		if v.Inner != nil {
			// dynamic type known on this path
			if types.Implements(v.Inner.Ty, at.Underlying().(*types.Interface)) {
				okCond = "true"
			} else {
				okCond = "false"
			}
		} else {
			f := x.d.fun("implements."+shortTypeName(at), []Sort{SInt}, SBool)
			okCond = and(not(eq(v.T, "inil")), app(f, app("itag", v.T)))
		}
		res = v
		res.Ty = at
	} else {
		tag := x.d.tag(at)
		okCond = and(not(eq(v.T, "inil")), eq(app("itag", v.T), fmt.Sprint(tag)))
		if v.Inner != nil {
			if types.Identical(v.Inner.Ty, at) {
				okCond = "true"
			} else {
				okCond = "false"
			}
		}
		res = x.unbox(v, at)
		x.assumeType(st, res)
	}
	if !ins.CommaOk {
		if x.spec.assumeAssert[fr.fn.String()] {
			x.mu.Lock()
			x.opaque["assumed-typeassert:"+x.fnShort(fr.fn)] = true
			x.mu.Unlock()
			st.assume(okCond)
			return []fork{{st, res}}
		}
		x.mayPanic(fr, st, okCond, "typeassert", ins, outs)
		return []fork{{st, res}}
	}
	mkt := func(r Val, ok string) Val {
		return Val{S: "Tuple", Ty: ins.Type(), Tup: []Val{r, {T: ok, S: SBool, Ty: types.Typ[types.Bool]}}}
	}
	if okCond == "true" {
		return []fork{{st, mkt(res, "true")}}
	}
	zero := x.zeroVal(at)
	zero.MaybeNil = true
	if okCond == "false" {
		return []fork{{st, mkt(zero, "false")}}
	}
	if !x.newPath() {
		return nil
	}
	s2 := st.clone()
	st.assumeK(okCond, 'c')
	st.trace = append(st.trace, "assert:"+shortTypeName(at)+":T")
	s2.assumeK(not(okCond), 'c')
	s2.trace = append(s2.trace, "assert:"+shortTypeName(at)+":F")
	return []fork{{st, mkt(res, "true")}, {s2, mkt(zero, "false")}}
}

// ---- lock discipline ----

func (x *Run) checkGuard(fr *Frame, st *State, a *Addr, write bool, site ssa.Instruction) {
	if a.Guard == "" || a.Fresh || a.Kind != AField {
		return
	}
	if subs := x.spec.guardSubs[fmt.Sprintf("%s#%d", typeKey(types.Unalias(a.Ty)), a.Field)]; subs != nil && len(a.Sel) > 0 && !subs[a.Sel[0]] {
		return // an unguarded (immutable) part of a partly guarded nested struct
	}
	x.checkHeld(fr, st, a.Guard, write, site, x.guardName(a))
}

func (x *Run) guardName(a *Addr) string {
	if stt, ok := structOf(a.Ty); ok && a.Kind == AField {
		return shortTypeName(types.Unalias(a.Ty)) + "." + stt.Field(a.Field).Name()
	}
	return "?"
}

func (x *Run) checkValGuard(fr *Frame, st *State, v Val, write bool, site ssa.Instruction) {
	if v.Guard == "" || v.Fresh {
		return
	}
	x.checkHeld(fr, st, v.Guard, write, site, "contents")
}

func (x *Run) checkHeld(fr *Frame, st *State, key string, write bool, site ssa.Instruction, what string) {
	// spec code (contract functions, pure functions) reads the table as of the atomic step
	for f := fr; f != nil; f = f.parent {
		if f.selfRun {
			break
		}
		if f.mode != ModeNormal {
			return
		}
	}
	h := st.held[key]
	ok := h == 1 || (!write && h == 2)
	name := fmt.Sprintf("lock.%s.%s", x.fnShort(fr.fn), what)
	note := "guarded access without lock"
	if write && h == 2 {
		note = "write under read lock"
	}
	x.obligeStatic(st, name, "lock", ok, site.Pos(), note)
}

func hasSelfRun(fr *Frame) bool {
	for f := fr; f != nil; f = f.parent {
		if f.selfRun {
			return true
		}
	}
	return false
}

// ---- loops ----

type loopInfo struct {
	byHeader map[*ssa.BasicBlock]*loop
}

type loop struct {
	header  *ssa.BasicBlock
	blocks  map[*ssa.BasicBlock]bool
	ordinal int
}

var loopCache = map[*ssa.Function]*loopInfo{}

func (x *Run) loops(fn *ssa.Function) *loopInfo {
	x.mu.Lock()
	li, ok := loopCache[fn]
	x.mu.Unlock()
	if ok {
		return li
	}
	li = &loopInfo{byHeader: map[*ssa.BasicBlock]*loop{}}
	for _, b := range fn.Blocks {
		for _, s := range b.Succs {
			if s.Dominates(b) {
				lp := li.byHeader[s]
				if lp == nil {
					lp = &loop{header: s, blocks: map[*ssa.BasicBlock]bool{s: true}}
					li.byHeader[s] = lp
				}
				// collect natural loop body
				stack := []*ssa.BasicBlock{b}
				for len(stack) > 0 {
					n := stack[len(stack)-1]
					stack = stack[:len(stack)-1]
					if lp.blocks[n] {
						continue
					}
					lp.blocks[n] = true
					stack = append(stack, n.Preds...)
				}
			}
		}
	}
	// ordinals in block order (source order for structured code)
	n := 0
	for _, b := range fn.Blocks {
		if lp := li.byHeader[b]; lp != nil {
			n++
			lp.ordinal = n
		}
	}
	x.mu.Lock()
	loopCache[fn] = li
	x.mu.Unlock()
	return li
}

func (x *Run) enterLoopHeader(fr *Frame, from, to *ssa.BasicBlock, st *State, lp *loop) []Outcome {
	ann := x.spec.loopAnn(fr.fn, lp.ordinal)
	if x.curCon != nil && x.curCon.Unroll != nil {
		if k, ok := x.curCon.Unroll[fmt.Sprintf("%s#%d", fr.fn.String(), lp.ordinal)]; ok {
			ann = &LoopAnn{Unroll: k}
		}
	}
	if ann != nil && ann.Unroll > 0 {
		fr.unroll[to]++
		if fr.unroll[to] > ann.Unroll+1 {
			// beyond the bound: path abandoned (bounded result, recorded)
			x.mu.Lock()
			x.opaque["bounded-unroll:"+x.fnShort(fr.fn)+fmt.Sprintf("#%d(%d)", lp.ordinal, ann.Unroll)] = true
			x.mu.Unlock()
			return nil
		}
		x.evalPhis(fr, from, to, st)
		return x.runBlock(fr, to, x.firstNonPhi(to), st)
	}
	x.evalPhis(fr, from, to, st)
	if fr.cut[to] {
		// back edge: the mutexes held are those held when the loop was entered (a
		// lock taken in the body and not released on some path to the next
		// iteration deadlocks that iteration)
		if !fr.inPure() && !fr.inSpec() {
			var leaked []string
			h0 := fr.loopHeld[to]
			for k, m := range st.held {
				if m != 0 && h0[k] == 0 {
					if n := lockNameOf(x, k); n != "" {
						leaked = append(leaked, n)
					} else {
						leaked = append(leaked, k)
					}
				}
			}
			sort.Strings(leaked)
			goal := "true"
			if len(leaked) > 0 {
				goal = "false"
			}
			x.oblige(st, fmt.Sprintf("lock.%s.loop#%d.balanced", x.fnShort(fr.fn), lp.ordinal), "lock", goal, lp.header.Instrs[0].Pos(), "mutex still held at the end of a loop iteration: "+strings.Join(leaked, " "))
		}
		// invariant preservation, then the path ends
		if ann != nil && ann.Inv != nil {
			x.checkLoopInv(fr, st, lp, ann, "preserve")
		}
		if ann != nil && ann.Body != nil {
			ba := &LoopAnn{Inv: ann.Body, Args: ann.BodyArgs}
			if d := os.Getenv("GOVC_DEBUG_ITER"); d != "" && strings.Contains(x.fnShort(fr.fn), d) {
				for i, e := range st.events {
					fmt.Fprintf(os.Stderr, "ITER %s ev[%d]=%s nargs=%d\n", x.fnShort(fr.fn), i, e.Name, len(e.Args))
				}
				fmt.Fprintf(os.Stderr, "ITER trace %v\n", st.trace)
			}
			x.checkLoopInvExtra(fr, st, lp, ba, "iteration", fr.loopHead[to])
		}
		return nil
	}
	if ann != nil && ann.Inv != nil {
		x.checkLoopInv(fr, st, lp, ann, "entry")
	}
	// havoc everything the loop may modify
	ms := x.loopMod(fr, lp)
	for _, ins := range to.Instrs {
		phi, ok := ins.(*ssa.Phi)
		if !ok {
			break
		}
		old := fr.env[phi]
		nv := x.freshVal(st, "loop_"+phi.Comment, phi.Type())
		nv.Addr = nil
		// automatic invariant for induction variables i = phi[init, i + c]
		if old.S == SInt {
			dir := 0
			okAll := true
			for k, e := range phi.Edges {
				if !lp.blocks[to.Preds[k]] {
					continue
				}
				bo, ok := e.(*ssa.BinOp)
				if !ok || bo.X != ssa.Value(phi) {
					okAll = false
					break
				}
				c, ok := bo.Y.(*ssa.Const)
				if !ok || c.Value == nil {
					okAll = false
					break
				}
				n, ok := litInt(x.constVal(c).T)
				if !ok || n <= 0 || (bo.Op != token.ADD && bo.Op != token.SUB) {
					okAll = false
					break
				}
				d := 1
				if bo.Op == token.SUB {
					d = -1
				}
				if dir != 0 && dir != d {
					okAll = false
					break
				}
				dir = d
			}
			if okAll && dir == 1 {
				st.assume(fmt.Sprintf("(>= %s %s)", nv.T, old.T))
			} else if okAll && dir == -1 {
				st.assume(fmt.Sprintf("(<= %s %s)", nv.T, old.T))
			}
		}
		fr.env[phi] = nv
		if phi.Comment != "" {
			fr.names[phi.Comment] = nv
		}
	}
	// slices are values (A-SLICE): an element store or a buffer-filling call in
	// the body re-binds the SSA value naming the slice, so the names it may
	// re-bind start the arbitrary iteration with unknown contents
	if !fr.inPure() && !fr.inSpec() {
		for b := range lp.blocks {
			for _, i2 := range b.Instrs {
				switch i2 := i2.(type) {
				case *ssa.Store:
					if ia, ok := i2.Addr.(*ssa.IndexAddr); ok {
						if ph, isPhi := ia.X.(*ssa.Phi); isPhi && ph.Block() == to {
							continue // a loop variable: unknown at the head already
						}
						x.havocSliceRoot(fr, st, ia.X)
					}
				case ssa.CallInstruction:
					if _, isB := i2.Common().Value.(*ssa.Builtin); isB {
						if i2.Common().Value.Name() == "copy" && len(i2.Common().Args) > 0 {
							x.havocSliceRoot(fr, st, i2.Common().Args[0])
						}
						continue
					}
					nm := ""
					if i2.Common().IsInvoke() {
						nm = i2.Common().Method.Name()
					} else if sf := i2.Common().StaticCallee(); sf != nil {
						nm = sf.Name()
						if x.spec.pureExt(sf) || x.spec.keepsArgs[sf.String()] || len(sf.Blocks) > 0 && x.spec.contractFor(sf.String()) == nil {
							continue // executed in line: its stores re-bind its own names
						}
					}
					if strings.HasPrefix(nm, "Write") || strings.HasPrefix(nm, "write") {
						continue
					}
					for _, a := range i2.Common().Args {
						x.havocSliceRoot(fr, st, a)
					}
				}
			}
		}
	}
	for c := range ms.cells {
		if cur, ok := st.cells[c]; ok {
			nv := x.freshVal(st, "loop_"+c.name, c.ty)
			_ = cur
			st.cells[c] = nv
		}
	}
	// the ghost "visited" sets of map ranges running in this loop
	for b := range lp.blocks {
		for _, i2 := range b.Instrs {
			if nx, ok := i2.(*ssa.Next); ok && !nx.IsString {
				if rg, ok := nx.Iter.(*ssa.Range); ok {
					if mt := mapTypeOf(rg.X.Type()); mt != nil {
						ms.arrs[x.visitedArr(mt)] = true
					}
				}
			}
		}
	}
	if ms.top {
		x.havocAllExcept(st, ms.preserves)
		for _, name := range sortedKeys(ms.arrs) {
			x.havocArr(st, name)
		}
		x.flushZeroAxioms(st)
	} else {
		for _, name := range sortedKeys(ms.arrs) {
			x.havocArr(st, name)
		}
		x.flushZeroAxioms(st)
	}
	if ann != nil && ann.Inv != nil {
		x.assumeLoopInv(fr, st, lp, ann)
	}
	if ann != nil && len(ann.Heads) > 0 {
		// values at the start of the (arbitrary) iteration, for the body check
		var hv []Val
		for _, hf := range ann.Heads {
			ha := &LoopAnn{Inv: hf, Args: ann.BodyArgs}
			if ann.HeadArgs != nil {
				ha.Args = ann.HeadArgs
			}
			if args, ok := x.loopInvArgs(fr, st, ha); ok {
				rt := hf.Signature.Results().At(0).Type()
				t := x.evalPure(fr, st, hf, args, nil)
				// name the value: the heap it was read from changes during the iteration
				c := x.d.fresh("head_"+hf.Name(), x.d.sortOf(rt))
				st.assume(eq(c, t))
				hv = append(hv, Val{T: c, S: x.d.sortOf(rt), Ty: rt})
			}
		}
		if fr.loopHead == nil {
			fr.loopHead = map[*ssa.BasicBlock][]Val{}
		}
		fr.loopHead[to] = hv
	}
	fr.cut[to] = true
	lh := make(map[*ssa.BasicBlock]map[string]int, len(fr.loopHeld)+1) // frames are cloned shallowly: copy on write
	for k, v := range fr.loopHeld {
		lh[k] = v
	}
	h0 := map[string]int{}
	for k, m := range st.held {
		h0[k] = m
	}
	lh[to] = h0
	fr.loopHeld = lh
	st.events = append(st.events, Event{Name: fmt.Sprintf("loop:%s#%d", fr.fn.String(), lp.ordinal), Ret: Val{T: intLit(int64(st.nfresh)), S: SInt}})
	st.trace = append(st.trace, fmt.Sprintf("loop%d", lp.ordinal))
	return x.runBlock(fr, to, x.firstNonPhi(to), st)
}

type loopMod struct {
	cells     map[*Cell]bool
	arrs      map[string]bool
	top       bool
	preserves []string
}

// loopMod computes what the loop body may modify: cells (by the Alloc values
// bound in this frame), heap arrays (via the static mod-set analysis).
func (x *Run) loopMod(fr *Frame, lp *loop) *loopMod {
	lm := &loopMod{cells: map[*Cell]bool{}, arrs: map[string]bool{}}
	ms := newModSet()
	ms.loopScan = true
	seen := map[*ssa.Function]bool{}
	// function-typed parameters bound to known closures in this frame: their
	// effects are those closures' effects, not "unknown code"
	if !x.spec.dynCallsAlways[fr.fn.String()] {
		allKnown := true
		for _, prm := range fr.fn.Params {
			if _, isSig := types.Unalias(prm.Type()).Underlying().(*types.Signature); !isSig {
				continue
			}
			if v, ok := fr.env[prm]; ok && v.Clo != nil {
				if !seen[v.Clo.Fn] {
					seen[v.Clo.Fn] = true
					x.modFunc(v.Clo.Fn, ms, seen, 1)
				}
			} else {
				allKnown = false
			}
		}
		if allKnown {
			if ms.knownParams == nil {
				ms.knownParams = map[*ssa.Function]bool{}
			}
			ms.knownParams[fr.fn] = true
		}
	}
	for b := range lp.blocks {
		for _, ins := range b.Instrs {
			x.modInstr(ins, ms, seen, 0)
		}
	}
	lm.top = ms.Top
	lm.preserves = ms.Preserves
	if traceOn {
		fmt.Fprintf(os.Stderr, "loopmod %s#%d top=%v why=%q preserves=%v\n", fr.fn.String(), lp.ordinal, ms.Top, ms.Why, ms.Preserves)
	}
	for a := range ms.Arrs {
		lm.arrs[a] = true
	}
	// cells: any Alloc (in this frame's env, or captured) stored in the loop or in closures called
	var addCell func(v ssa.Value, f *Frame)
	addCell = func(v ssa.Value, f *Frame) {
		if val, ok := f.env[v]; ok && val.Addr != nil && (val.Addr.Kind == ACell || val.Addr.Kind == AArrCell) {
			lm.cells[val.Addr.Cell] = true
		}
	}
	for av := range ms.CellVals {
		addCell(av, fr)
	}
	// free variables written by closures: map to bindings
	for fv := range ms.FreeVarsWritten {
		// find closure bindings in this frame's env
		for v, val := range fr.env {
			_ = v
			if val.Clo != nil && val.Clo.Fn == fv.Parent() {
				for i, f := range val.Clo.Fn.FreeVars {
					if f == fv && i < len(val.Clo.Bindings) {
						b := val.Clo.Bindings[i]
						if b.Addr != nil && b.Addr.Kind == ACell {
							lm.cells[b.Addr.Cell] = true
						}
					}
				}
			}
		}
		// or this frame's own free var
		if val, ok := fr.env[fv]; ok && val.Addr != nil && val.Addr.Kind == ACell {
			lm.cells[val.Addr.Cell] = true
		}
	}
	return lm
}

func (x *Run) loopInvArgs(fr *Frame, st *State, ann *LoopAnn) ([]Val, bool) {
	var args []Val
	for _, n := range ann.Args {
		v, ok := fr.names[n]
		if !ok {
			if pv, ok2 := fr.names["&"+n]; ok2 {
				v = x.load(st, pv.Addr, nil)
				ok = true
			}
		} else if pv, ok2 := fr.names["&"+n]; ok2 {
			// prefer the cell's current content when the variable lives in a cell
			v = x.load(st, pv.Addr, nil)
		}
		if !ok {
			x.unsupported(fmt.Sprintf("loop invariant of %s refers to unknown local %q", fr.fn.String(), n), token.NoPos)
			return nil, false
		}
		// params captured in cells: names map holds the pointer; deref
		if v.Addr != nil && v.Addr.Kind == ACell && strings.HasPrefix(x.cellNameOf(v), n) && isPtrToType(v.Ty, ann.Inv.Signature.Params(), len(args)) {
			v = x.load(st, v.Addr, nil)
		}
		args = append(args, v)
	}
	return args, true
}

func isPtrToType(t types.Type, params *types.Tuple, i int) bool {
	if t == nil || i >= params.Len() {
		return false
	}
	p, ok := t.Underlying().(*types.Pointer)
	if !ok {
		return false
	}
	return types.Identical(p.Elem(), params.At(i).Type())
}

func (x *Run) cellNameOf(v Val) string {
	if v.Addr != nil && v.Addr.Cell != nil {
		return v.Addr.Cell.name
	}
	return ""
}

func (x *Run) checkLoopInv(fr *Frame, st *State, lp *loop, ann *LoopAnn, phase string) {
	x.checkLoopInvExtra(fr, st, lp, ann, phase, nil)
}

func (x *Run) checkLoopInvExtra(fr *Frame, st *State, lp *loop, ann *LoopAnn, phase string, extra []Val) {
	args, ok := x.loopInvArgs(fr, st, ann)
	if !ok {
		return
	}
	args = append(args, extra...)
	// quantified trailing params: fresh constants (proving a forall)
	for i := len(args); i < ann.Inv.Signature.Params().Len(); i++ {
		args = append(args, x.freshVal(st, "q", ann.Inv.Signature.Params().At(i).Type()))
	}
	t := x.evalPure(fr, st, ann.Inv, args, nil)
	x.oblige(st, fmt.Sprintf("loop.%s#%d.%s", x.fnShort(fr.fn), lp.ordinal, phase), "loop", t, lp.header.Instrs[0].Pos(), "loop invariant "+phase)
}

func (x *Run) assumeLoopInv(fr *Frame, st *State, lp *loop, ann *LoopAnn) {
	args, ok := x.loopInvArgs(fr, st, ann)
	if !ok {
		return
	}
	var bound []string
	var bsorts []Sort
	for i := len(args); i < ann.Inv.Signature.Params().Len(); i++ {
		ty := ann.Inv.Signature.Params().At(i).Type()
		q := x.freshVal(newState(), "bq", ty)
		bound = append(bound, q.T)
		bsorts = append(bsorts, q.S)
		args = append(args, q)
	}
	t := x.evalPure(fr, st, ann.Inv, args, bound)
	st.assume(forall(bound, bsorts, t))
}

func forall(vars []string, sorts []Sort, body string) string {
	if len(vars) == 0 || body == "true" {
		return body
	}
	// bind only the variables that occur: a quantifier over an unused variable
	// hides a ground fact from the solver
	{
		var v2 []string
		var s2 []Sort
		for i, v := range vars {
			if containsSym(body, v) {
				v2 = append(v2, v)
				s2 = append(s2, sorts[i])
			}
		}
		vars, sorts = v2, s2
		if len(vars) == 0 {
			return body
		}
	}
	var bs []string
	for i, v := range vars {
		bs = append(bs, fmt.Sprintf("(%s %s)", v, sorts[i]))
	}
	if pat := inferPatterns(vars, body); pat != "" {
		return fmt.Sprintf("(forall (%s) (! %s :pattern %s))", strings.Join(bs, " "), body, pat)
	}
	return fmt.Sprintf("(forall (%s) %s)", strings.Join(bs, " "), body)
}

// containsSym: symbol sym occurs in the s-expression text as a whole token.
func containsSym(text, sym string) bool {
	for i := 0; ; {
		j := strings.Index(text[i:], sym)
		if j < 0 {
			return false
		}
		j += i
		e := j + len(sym)
		okL := j == 0 || text[j-1] == ' ' || text[j-1] == '('
		okR := e == len(text) || text[e] == ' ' || text[e] == ')'
		if okL && okR {
			return true
		}
		i = j + 1
	}
}

// onlyClosedEverSignals: the channel value was loaded from a struct field on
// which no statement of the loaded frp packages sends (and no send exists on a
// non-field channel of its element type): a receive from it completes only
// when the channel has been closed (A-CHANFIELD).
func (x *Run) onlyClosedEverSignals(ch Val, t types.Type) bool {
	ct, ok := types.Unalias(t).Underlying().(*types.Chan)
	if !ok || x.sendable == nil || ch.Origin == "" || !strings.HasPrefix(ch.Origin, "H.") {
		return false
	}
	if x.sendable["field:"+ch.Origin] || x.sendable[typeKey(ct.Elem())] {
		return false
	}
	// channels owned by library objects (time.Ticker.C, time.Timer.C, ...) are
	// sent on by library code the scan does not see
	x.mu.Lock()
	lib := x.libFieldArr[ch.Origin]
	x.mu.Unlock()
	if lib {
		return false
	}
	x.mu.Lock()
	x.opaque["neversent:"+ch.Origin] = true
	x.mu.Unlock()
	return true
}

// awaitClosed: while a goroutine waits in a blocking receive, others run and
// may close the awaited channel: whatever the path knew about "not closed yet"
// (e.g. from the default branch of an earlier select) no longer holds when the
// receive completes. A closed channel stays closed; a channel nobody ever
// closes stays open. Returns the closed flag of ch after the wait.
func (x *Run) awaitClosed(st *State, ch Val, t types.Type) string {
	name := x.chClosedFor(ch, t)
	old := sel(x.arr(st, name), ch.T)
	if ct, ok := types.Unalias(t).Underlying().(*types.Chan); ok && x.closable != nil && ch.Origin != "" && !x.closable[typeKey(ct.Elem())] && !x.closable["field:"+ch.Origin] && !x.libFieldArr[ch.Origin] {
		return old
	}
	c := x.freshVal(st, "closednow", types.Typ[types.Bool])
	st.assume(implies(old, c.T))
	x.setArr(st, name, fmt.Sprintf("(store %s %s %s)", x.arr(st, name), ch.T, c.T))
	return c.T
}
