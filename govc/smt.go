package main

// SMT layer: sorts, declarations, term helpers, solver racing.

import (
	"bytes"
	"context"
	"fmt"
	"go/types"
	"os"
	"os/exec"
	"path/filepath"
	"sort"
	"strings"
	"sync"
	"time"
)

type Sort string

const (
	SInt   Sort = "Int"
	SBool  Sort = "Bool"
	SStr   Sort = "Str"
	SReal  Sort = "Real"
	SIface Sort = "Iface"
	SUnit  Sort = "Unit" // struct{} and friends
)

// Decls is the ordered registry of SMT declarations for one verification run.
type Decls struct {
	mu    sync.Mutex
	order []string
	seen  map[string]bool
	n     int
	// string literals
	lits    map[string]string
	litList []string
	// type tags
	tags    map[string]int
	tagName []string
	sorts   map[string]Sort // cache type string -> sort
	structs map[Sort]*structInfo
	slices  map[Sort]Sort // slice sort -> elem sort
}

type structInfo struct {
	sort   Sort
	fields []Sort
	names  []string
	ty     *types.Struct
}

func newDecls() *Decls {
	d := &Decls{seen: map[string]bool{}, lits: map[string]string{}, tags: map[string]int{}, sorts: map[string]Sort{}, structs: map[Sort]*structInfo{}, slices: map[Sort]Sort{}}
	d.raw("sort.Str", "(declare-sort Str 0)")
	d.raw("sort.Unit", "(declare-datatypes ((Unit 0)) (((unit))))")
	d.raw("sort.Iface", "(declare-datatypes ((Iface 0)) (((inil) (ibox (itag Int) (ival Int)))))")
	d.raw("fun.strlen", "(declare-fun strlen (Str) Int)")
	d.raw("fun.concat", "(declare-fun strconcat (Str Str) Str)")
	d.raw("fun.live0", "(declare-fun live0 (Int) Bool)")
	d.raw("ax.strlen", "(assert (forall ((s Str)) (! (>= (strlen s) 0) :pattern ((strlen s)))))")
	return d
}

func (d *Decls) raw(key, text string) {
	d.mu.Lock()
	defer d.mu.Unlock()
	if d.seen[key] {
		return
	}
	d.seen[key] = true
	d.order = append(d.order, text)
}

func (d *Decls) fresh(prefix string, s Sort) string {
	d.mu.Lock()
	d.n++
	name := fmt.Sprintf("%s!%d", sanitize(prefix), d.n)
	d.mu.Unlock()
	d.raw("c."+name, fmt.Sprintf("(declare-const %s %s)", name, s))
	return name
}

func (d *Decls) fun(name string, args []Sort, ret Sort) string {
	name = sanitize(name)
	as := make([]string, len(args))
	for i, a := range args {
		as[i] = string(a)
	}
	d.raw("f."+name, fmt.Sprintf("(declare-fun %s (%s) %s)", name, strings.Join(as, " "), ret))
	return name
}

func (d *Decls) constArr(name string, s Sort) string {
	name = sanitize(name)
	d.raw("c."+name, fmt.Sprintf("(declare-const %s %s)", name, s))
	return name
}

func sanitize(s string) string {
	var b strings.Builder
	for _, r := range s {
		switch {
		case r >= 'a' && r <= 'z', r >= 'A' && r <= 'Z', r >= '0' && r <= '9', r == '_', r == '.', r == '!', r == '$':
			b.WriteRune(r)
		case r == '*':
			b.WriteString("P")
		case r == '/':
			b.WriteString(".")
		case r == '[':
			b.WriteString("_L")
		case r == ']':
			b.WriteString("R_")
		default:
			b.WriteString("_")
		}
	}
	r := b.String()
	if r == "" || (r[0] >= '0' && r[0] <= '9') {
		r = "x" + r
	}
	return r
}

// lit returns the constant naming a string literal.
func (d *Decls) lit(s string) string {
	d.mu.Lock()
	if n, ok := d.lits[s]; ok {
		d.mu.Unlock()
		return n
	}
	name := fmt.Sprintf("lit%d", len(d.lits))
	if s == "" {
		name = "litEmpty"
	}
	d.lits[s] = name
	d.litList = append(d.litList, s)
	d.mu.Unlock()
	d.raw("c."+name, fmt.Sprintf("(declare-const %s Str) ; %q", name, truncate(s, 60)))
	d.raw("len."+name, fmt.Sprintf("(assert (= (strlen %s) %d))", name, len(s)))
	return name
}

func truncate(s string, n int) string {
	s = strings.ReplaceAll(s, "\n", "\\n")
	if len(s) > n {
		return s[:n] + "..."
	}
	return s
}

func (d *Decls) tag(t types.Type) int {
	key := types.TypeString(t, nil)
	d.mu.Lock()
	defer d.mu.Unlock()
	if n, ok := d.tags[key]; ok {
		return n
	}
	n := len(d.tags) + 1
	d.tags[key] = n
	d.tagName = append(d.tagName, key)
	return n
}

// preamble returns all declarations plus literal distinctness.
func (d *Decls) preamble() string {
	d.mu.Lock()
	defer d.mu.Unlock()
	var b strings.Builder
	for _, l := range d.order {
		b.WriteString(l)
		b.WriteByte('\n')
	}
	if len(d.lits) > 1 {
		names := make([]string, 0, len(d.lits))
		for _, n := range d.lits {
			names = append(names, n)
		}
		sort.Strings(names)
		b.WriteString("(assert (distinct " + strings.Join(names, " ") + "))\n")
	}
	if _, ok := d.lits[""]; ok {
		b.WriteString("(assert (forall ((s Str)) (! (=> (= (strlen s) 0) (= s litEmpty)) :pattern ((strlen s)))))\n")
	}
	return b.String()
}

// ---------- term helpers ----------

func app(f string, args ...string) string {
	if len(args) == 0 {
		return f
	}
	return "(" + f + " " + strings.Join(args, " ") + ")"
}

func and(xs ...string) string {
	var ys []string
	for _, x := range xs {
		if x == "true" || x == "" {
			continue
		}
		if x == "false" {
			return "false"
		}
		ys = append(ys, x)
	}
	if len(ys) == 0 {
		return "true"
	}
	if len(ys) == 1 {
		return ys[0]
	}
	return app("and", ys...)
}

func or(xs ...string) string {
	var ys []string
	for _, x := range xs {
		if x == "false" || x == "" {
			continue
		}
		if x == "true" {
			return "true"
		}
		ys = append(ys, x)
	}
	if len(ys) == 0 {
		return "false"
	}
	if len(ys) == 1 {
		return ys[0]
	}
	return app("or", ys...)
}

func not(x string) string {
	if x == "true" {
		return "false"
	}
	if x == "false" {
		return "true"
	}
	if strings.HasPrefix(x, "(not ") && balanced(x[5:len(x)-1]) {
		return x[5 : len(x)-1]
	}
	return "(not " + x + ")"
}

func balanced(s string) bool {
	d := 0
	for i, c := range s {
		if c == '(' {
			d++
		} else if c == ')' {
			d--
			if d < 0 {
				return false
			}
			if d == 0 && i != len(s)-1 {
				return false
			}
		} else if d == 0 && c == ' ' {
			return false
		}
	}
	return d == 0
}

func implies(a, b string) string {
	if a == "true" {
		return b
	}
	if a == "false" || b == "true" {
		return "true"
	}
	return "(=> " + a + " " + b + ")"
}

func eq(a, b string) string {
	if a == b {
		return "true"
	}
	return "(= " + a + " " + b + ")"
}

func ite(c, a, b string) string {
	if c == "true" {
		return a
	}
	if c == "false" {
		return b
	}
	if a == b {
		return a
	}
	return "(ite " + c + " " + a + " " + b + ")"
}

func intLit(n int64) string {
	if n < 0 {
		return fmt.Sprintf("(- %d)", -n)
	}
	return fmt.Sprintf("%d", n)
}

func sel(a, i string) string      { return "(select " + a + " " + i + ")" }
func store(a, i, v string) string { return "(store " + a + " " + i + " " + v + ")" }

// sexpArgs splits "(op a b c)" into op and its top-level arguments.
func sexpArgs(t string) (string, []string) {
	if len(t) < 2 || t[0] != '(' || t[len(t)-1] != ')' {
		return "", nil
	}
	body := t[1 : len(t)-1]
	var parts []string
	depth, start := 0, 0
	for i := 0; i < len(body); i++ {
		switch body[i] {
		case '(':
			depth++
		case ')':
			depth--
		case ' ':
			if depth == 0 {
				if i > start {
					parts = append(parts, body[start:i])
				}
				start = i + 1
			}
		}
	}
	if start < len(body) {
		parts = append(parts, body[start:])
	}
	if len(parts) == 0 {
		return "", nil
	}
	return parts[0], parts[1:]
}

// simpSelect reduces (select (store A i v) j) syntactically: v when i and j are
// the same term, the select on A when both are distinct integer literals.
func simpSelect(t string) string {
	for {
		op, a := sexpArgs(t)
		if op != "select" || len(a) != 2 {
			return t
		}
		op2, b := sexpArgs(a[0])
		if op2 != "store" || len(b) != 3 {
			return t
		}
		if b[1] == a[1] {
			return b[2]
		}
		if isIntLit(b[1]) && isIntLit(a[1]) {
			t = sel(b[0], a[1])
			continue
		}
		return t
	}
}

func isIntLit(s string) bool {
	if strings.HasPrefix(s, "(- ") && strings.HasSuffix(s, ")") {
		s = s[3 : len(s)-1]
	}
	if s == "" {
		return false
	}
	for _, c := range s {
		if c < '0' || c > '9' {
			return false
		}
	}
	return true
}

// ---------- solver ----------

type SolveResult struct {
	Status string // unsat | sat | unknown | timeout | error
	Solver string
	Ms     int64
	Model  string
	Raw    string
	Bytes  int
}

type solverSpec struct {
	name string
	argv func(file string, timeoutSec int) []string
	pre  string
}

var solvers = []solverSpec{
	{"z3-new", func(f string, t int) []string { return []string{"z3-new", fmt.Sprintf("-T:%d", t), f} }, ""},
	{"z3", func(f string, t int) []string { return []string{"z3", fmt.Sprintf("-T:%d", t), f} }, ""},
	{"cvc5", func(f string, t int) []string {
		return []string{"cvc5", "--lang=smt2", fmt.Sprintf("--tlimit=%d", t*1000), "--produce-models", f}
	}, "(set-logic ALL)\n"},
}

var workDir string
var solverSem = make(chan struct{}, 16)

func initWork() {
	base := os.Getenv("VERIF_WORK")
	if base == "" {
		base = "/verif/.work"
	}
	workDir = filepath.Join(base, fmt.Sprintf("%d", os.Getpid()))
	os.MkdirAll(workDir, 0o755)
}

func cleanupWork() {
	if workDir != "" {
		os.RemoveAll(workDir)
	}
}

var queryCounter int
var queryMu sync.Mutex

// solve checks satisfiability of body (declarations + assertions, without
// check-sat).  wantModel asks for a model on sat.  which selects solvers
// (nil = race all).
func solve(body string, timeoutSec int, wantModel bool, which []string) SolveResult {
	queryMu.Lock()
	queryCounter++
	id := queryCounter
	queryMu.Unlock()
	type res struct {
		r SolveResult
	}
	var specs []solverSpec
	for _, s := range solvers {
		if which == nil {
			specs = append(specs, s)
			continue
		}
		for _, w := range which {
			if w == s.name {
				specs = append(specs, s)
			}
		}
	}
	ctx, cancel := context.WithCancel(context.Background())
	defer cancel()
	ch := make(chan SolveResult, len(specs))
	for _, sp := range specs {
		sp := sp
		go func() {
			solverSem <- struct{}{}
			defer func() { <-solverSem }()
			if ctx.Err() != nil {
				ch <- SolveResult{Status: "cancelled", Solver: sp.name}
				return
			}
			file := filepath.Join(workDir, fmt.Sprintf("q%d.%s.smt2", id, sp.name))
			txt := sp.pre + body + "(check-sat)\n"
			if wantModel {
				txt += "(get-model)\n"
			}
			os.WriteFile(file, []byte(txt), 0o644)
			defer os.Remove(file)
			argv := sp.argv(file, timeoutSec)
			c, cc := context.WithTimeout(ctx, time.Duration(timeoutSec+2)*time.Second)
			defer cc()
			cmd := exec.CommandContext(c, argv[0], argv[1:]...)
			var out bytes.Buffer
			cmd.Stdout = &out
			cmd.Stderr = &out
			t0 := time.Now()
			cmd.Run()
			ms := time.Since(t0).Milliseconds()
			o := out.String()
			first := strings.TrimSpace(strings.SplitN(o, "\n", 2)[0])
			r := SolveResult{Solver: sp.name, Ms: ms, Raw: truncateRaw(o), Bytes: len(txt)}
			switch first {
			case "unsat":
				r.Status = "unsat"
			case "sat":
				r.Status = "sat"
				if i := strings.Index(o, "\n"); i >= 0 {
					r.Model = o[i+1:]
				}
			case "unknown":
				r.Status = "unknown"
			case "timeout":
				r.Status = "timeout"
			default:
				if ctx.Err() != nil {
					r.Status = "cancelled"
				} else if c.Err() != nil {
					r.Status = "timeout"
				} else {
					r.Status = "error"
				}
			}
			ch <- r
		}()
	}
	var last SolveResult
	last.Status = "unknown"
	for range specs {
		r := <-ch
		if r.Status == "unsat" || r.Status == "sat" {
			cancel()
			return r
		}
		if r.Status != "cancelled" {
			if last.Raw == "" || r.Status == "error" {
				last = r
			}
		}
	}
	return last
}

func truncateRaw(s string) string {
	if len(s) > 4000 {
		return s[:4000] + "...[truncated]"
	}
	return s
}

// ---------- pattern inference for generated quantifiers ----------

type sexpr struct {
	atom string
	kids []*sexpr
	text string
}

func parseSexpr(s string) *sexpr {
	pos := 0
	var parse func() *sexpr
	parse = func() *sexpr {
		for pos < len(s) && (s[pos] == ' ' || s[pos] == '\n') {
			pos++
		}
		if pos >= len(s) {
			return nil
		}
		start := pos
		if s[pos] == '(' {
			pos++
			n := &sexpr{}
			for {
				for pos < len(s) && (s[pos] == ' ' || s[pos] == '\n') {
					pos++
				}
				if pos >= len(s) {
					break
				}
				if s[pos] == ')' {
					pos++
					break
				}
				k := parse()
				if k == nil {
					break
				}
				n.kids = append(n.kids, k)
			}
			n.text = s[start:pos]
			return n
		}
		for pos < len(s) && s[pos] != ' ' && s[pos] != ')' && s[pos] != '(' && s[pos] != '\n' {
			pos++
		}
		return &sexpr{atom: s[start:pos], text: s[start:pos]}
	}
	return parse()
}

func (e *sexpr) vars(set map[string]bool, out map[string]bool) {
	if e == nil {
		return
	}
	if e.atom != "" {
		if set[e.atom] {
			out[e.atom] = true
		}
		return
	}
	for _, k := range e.kids {
		k.vars(set, out)
	}
}

// inferPatterns picks select-terms indexed by bound variables as a
// multi-pattern covering all bound variables (maximal terms first).
func inferPatterns(vars []string, body string) string {
	if len(vars) == 0 {
		return ""
	}
	set := map[string]bool{}
	for _, v := range vars {
		set[v] = true
	}
	root := parseSexpr(body)
	if root == nil {
		return ""
	}
	type cand struct {
		e    *sexpr
		vars map[string]bool
	}
	var cands []cand
	var walk func(e *sexpr, underQuant bool)
	walk = func(e *sexpr, underQuant bool) {
		if e == nil || e.atom != "" {
			return
		}
		if len(e.kids) > 0 && (e.kids[0].atom == "forall" || e.kids[0].atom == "exists" || e.kids[0].atom == "let") {
			return // nested binders: do not look inside
		}
		if len(e.kids) == 3 && e.kids[0].atom == "select" && e.kids[2].atom != "" && set[e.kids[2].atom] {
			vs := map[string]bool{}
			e.vars(set, vs)
			ok := true
			// pattern terms must not contain interpreted boolean structure
			if strings.Contains(e.text, "(ite ") && len(e.text) > 4000 {
				ok = false
			}
			if ok {
				cands = append(cands, cand{e, vs})
			}
		}
		for _, k := range e.kids {
			walk(k, underQuant)
		}
	}
	walk(root, false)
	if len(cands) == 0 {
		return ""
	}
	// prefer candidates covering most variables, then shorter text
	sort.Slice(cands, func(i, j int) bool {
		if len(cands[i].vars) != len(cands[j].vars) {
			return len(cands[i].vars) > len(cands[j].vars)
		}
		return len(cands[i].e.text) < len(cands[j].e.text)
	})
	covered := map[string]bool{}
	var chosen []string
	for _, c := range cands {
		adds := false
		for v := range c.vars {
			if !covered[v] {
				adds = true
			}
		}
		if !adds {
			continue
		}
		if strings.Contains(c.e.text, "(ite ") || strings.Contains(c.e.text, "(and ") || strings.Contains(c.e.text, "(not ") || strings.Contains(c.e.text, "(= ") {
			// patterns may not contain logical connectives
			continue
		}
		chosen = append(chosen, c.e.text)
		for v := range c.vars {
			covered[v] = true
		}
		if len(covered) == len(vars) {
			break
		}
	}
	if len(covered) != len(vars) || len(chosen) == 0 {
		return ""
	}
	return "(" + strings.Join(chosen, " ") + ")"
}
