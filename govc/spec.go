package main

// SpecDB: directives read from the tag-guarded contract files.

import (
	"fmt"
	"go/ast"
	"go/types"
	"strconv"
	"strings"

	"golang.org/x/tools/go/packages"
	"golang.org/x/tools/go/ssa"
)

type Contract struct {
	Fn          *ssa.Function
	Target      *ssa.Function
	TargetName  string
	Sig         *types.Signature // for interface / external targets
	Props       []string
	Impls       []string
	InlineKnown bool
	Prune       bool // ask the solver before every fork from the first path on
	Kinds       map[string]bool
	Trusted     bool
	Modifies    []string
	Lemma       bool
	Unroll      map[string]int
	Thorough    bool
	Preserves   []string
	Pos         string
}

type LoopAnn struct {
	Inv      *ssa.Function
	Args     []string
	Unroll   int
	Body     *ssa.Function // checked at every back edge (what a completed iteration did)
	BodyArgs []string
	HeadArgs []string        // arguments of the head functions, when they differ from BodyArgs (locals that exist at the loop head)
	Heads    []*ssa.Function // pure functions of BodyArgs evaluated at the loop head; results are passed to Body after its named arguments
	Exit     *ssa.Function   // checked where the function returns from inside the loop (same arguments and head values as Body)
}

type Sweep struct {
	Target     *ssa.Function
	Name       string
	Props      []string
	Kinds      map[string]bool // obligation kinds generated (nil: all)
	Recv       bool            // noblock: receives are checked as well
	CloseField string          // closed-only-by: heap array name of the channel field
	CloseBy    []string        // closed-only-by: functions allowed to close it
}

type SpecDB struct {
	contracts      map[string]*Contract // by target full name
	units          []*Contract          // all contract + lemma functions
	sweeps         []*Sweep
	pure           map[string]bool
	uninterp       map[string]bool
	guards         map[string]map[int]int // struct type key -> field index -> mutex field index
	invariants     map[string][]*ssa.Function
	loopAnns       map[string]*LoopAnn // "fn#ordinal"
	inlineExts     []string
	pureExts       map[string]bool
	nullable       map[string]bool
	errors         []string
	files          []string
	lockCache      map[*ssa.Function]bool
	tables         map[string]bool
	effectFree     map[string]bool
	noblock        []*Sweep
	fieldFns       map[string]*ssa.Function // field array name -> spec function standing for calls through that func-typed field
	getters        map[string]bool
	detFns         map[string]bool
	keepsArgs      map[string]bool // library functions trusted not to write through their slice arguments
	guardSubs      map[string]map[int]bool
	dynCallsAlways map[string]bool
	lockHeld       map[string]string // function -> mutex field of its receiver that callers hold
	stubs          map[string]*ssa.Function
	assumeAssert   map[string]bool
	dynCalls       map[string]*ssa.Function // "fn#k" -> spec function for the k-th dynamic call in fn
	curProps       []string
}

func expandName(s string) string {
	return strings.ReplaceAll(s, "~/", frpPrefix+"/")
}

func (db *SpecDB) contractFor(name string) *Contract { return db.contracts[name] }
func (db *SpecDB) isUninterp(name string) bool       { return db.uninterp[name] }

func (db *SpecDB) guardOf(t types.Type, field int) int {
	if db == nil {
		return -1
	}
	m := db.guards[typeKey(types.Unalias(t))]
	if m == nil {
		return -1
	}
	if g, ok := m[field]; ok {
		return g
	}
	return -1
}

func (db *SpecDB) loopAnn(fn *ssa.Function, ordinal int) *LoopAnn {
	return db.loopAnns[fmt.Sprintf("%s#%d", fn.String(), ordinal)]
}

func (db *SpecDB) inlineExt(fn *ssa.Function, pp string) bool {
	for _, p := range db.inlineExts {
		if strings.HasPrefix(pp, p) || strings.HasPrefix(fn.String(), p) {
			return true
		}
	}
	return false
}

func (db *SpecDB) pureExt(fn *ssa.Function) bool {
	n := fn.String()
	if db.pureExts[n] {
		return true
	}
	// decoders and fillers write through their pointer / slice arguments
	// whatever package they live in (json.Unmarshal, MsgCtl.ReadMsgInto,
	// rand.Read, hex.Decode, (*net.TCPConn).Read, reflect's setters, ...)
	for _, p := range []string{"Unmarshal", "Decode", "Read", "Scan", "Sscan", "Fscan", "UnPack", "Set", "Put", "Fill", "Copy"} {
		if strings.HasPrefix(fn.Name(), p) {
			return false
		}
	}
	if fn.Name() == "Encode" {
		return false
	}
	pp := pkgPathOf(fn)
	switch pp {
	case "fmt", "strings", "strconv", "errors", "time", "net", "path", "path/filepath", "unicode", "unicode/utf8", "math", "sort", "slices", "maps", "bytes", "encoding/base64", "encoding/hex", "crypto/md5", "crypto/subtle", "reflect", "context", "net/url", "net/netip", "github.com/samber/lo", "math/rand", "crypto/rand", "regexp", "github.com/fatedier/golib/msg/json", "encoding/json":
		return true
	}
	return false
}

// detExt: library functions that are deterministic functions of their
// (value) arguments.
func (db *SpecDB) detExt(fn *ssa.Function) bool {
	pp := pkgPathOf(fn)
	if db.detFns[fn.String()] {
		return true
	}
	// accessors of library objects: deterministic in (receiver, arguments) as
	// long as the object is not modified in between (requests and headers are
	// read-only for the code under contract)
	switch fn.String() {
	case "(*net/http.Request).BasicAuth", "(net/http.Header).Get", "(*net/http.Request).Context", "(*net/http.Request).UserAgent",
		"(net/http.Header).Values", "(*encoding/base64.Encoding).EncodeToString", "(*encoding/base64.Encoding).DecodeString", "(*net/url.URL).Hostname", "(*net/url.URL).Port", "(*net/url.URL).String", "(net.IP).String", "(net.IP).To4",
		"(time.Time).IsZero", "(time.Time).After", "(time.Time).Before", "(time.Time).Equal", "(time.Time).Add", "(time.Time).Sub":
		return true
	}
	switch pp {
	case "strings", "strconv", "slices", "bytes", "cmp", "path", "path/filepath", "unicode", "unicode/utf8", "encoding/base64", "encoding/hex", "crypto/md5", "net/netip", "math":
		// functions taking pointers / writers are not value functions
		for _, p := range fn.Params {
			switch types.Unalias(p.Type()).Underlying().(type) {
			case *types.Pointer, *types.Interface, *types.Signature, *types.Chan, *types.Map:
				return false
			}
		}
		return true
	case "net":
		switch fn.Name() {
		case "JoinHostPort", "SplitHostPort", "ParseIP", "ParseCIDR":
			return true
		}
	}
	return false
}

func (db *SpecDB) locksReceiver(fn *ssa.Function) bool {
	if v, ok := db.lockCache[fn]; ok {
		return v
	}
	res := false
	for _, b := range fn.Blocks {
		for _, ins := range b.Instrs {
			var cc *ssa.CallCommon
			switch c := ins.(type) {
			case *ssa.Call:
				cc = &c.Call
			}
			if cc == nil {
				continue
			}
			if f := cc.StaticCallee(); f != nil {
				switch f.String() {
				case "(*sync.Mutex).Lock", "(*sync.RWMutex).Lock", "(*sync.RWMutex).RLock":
					res = true
				}
			}
		}
	}
	db.lockCache[fn] = res
	return res
}

func (db *SpecDB) globalInit(x *Run, g *ssa.Global) (Val, bool) {
	return Val{}, false
}

// findFunc resolves a function by its ssa String() name.
func findFunc(prog *ssa.Program, all map[string]*ssa.Function, name string) *ssa.Function {
	return all[name]
}

func buildSpecDB(prog *ssa.Program, pkgs []*packages.Package, allFns map[string]*ssa.Function) *SpecDB {
	db := &SpecDB{contracts: map[string]*Contract{}, pure: map[string]bool{}, uninterp: map[string]bool{}, guards: map[string]map[int]int{}, invariants: map[string][]*ssa.Function{}, loopAnns: map[string]*LoopAnn{}, pureExts: map[string]bool{}, nullable: map[string]bool{}, lockCache: map[*ssa.Function]bool{}, tables: map[string]bool{}, effectFree: map[string]bool{}, fieldFns: map[string]*ssa.Function{}, getters: map[string]bool{}, dynCalls: map[string]*ssa.Function{}, detFns: map[string]bool{}, keepsArgs: map[string]bool{}, stubs: map[string]*ssa.Function{}, assumeAssert: map[string]bool{}}
	db.inlineExts = []string{"github.com/fatedier/golib/errors", "github.com/samber/lo"}
	seen := map[string]bool{}
	packages.Visit(pkgs, nil, func(p *packages.Package) {
		if !(strings.HasPrefix(p.PkgPath, frpPrefix) || extContractPkgs[p.PkgPath]) || seen[p.PkgPath] {
			return
		}
		seen[p.PkgPath] = true
		spkg := prog.Package(p.Types)
		for i, f := range p.Syntax {
			fname := p.CompiledGoFiles[i]
			if !strings.HasSuffix(fname, "_verif.go") {
				continue
			}
			db.files = append(db.files, fname)
			db.readFile(prog, p, spkg, f, allFns)
		}
	})
	return db
}

// closureEscapes: the function literal an of parent is used other than as the
// callee of a call / defer inside parent.
func closureEscapes(parent, an *ssa.Function) bool {
	for _, b := range parent.Blocks {
		for _, ins := range b.Instrs {
			mc, ok := ins.(*ssa.MakeClosure)
			var v ssa.Value
			if ok && mc.Fn == ssa.Value(an) {
				v = mc
			}
			if v == nil {
				continue
			}
			refs := v.Referrers()
			if refs == nil {
				return true
			}
			for _, r := range *refs {
				switch c := r.(type) {
				case *ssa.Defer:
					if c.Call.Value != v {
						return true
					}
				case *ssa.Call:
					if c.Call.Value != v {
						return true
					}
				case *ssa.DebugRef:
				default:
					return true
				}
			}
			return false
		}
	}
	// not created through MakeClosure (no free variables): look for uses of the function value
	for _, b := range parent.Blocks {
		for _, ins := range b.Instrs {
			switch c := ins.(type) {
			case *ssa.Defer:
				if c.Call.Value == ssa.Value(an) {
					continue
				}
			case *ssa.Call:
				if c.Call.Value == ssa.Value(an) {
					continue
				}
			}
			for _, op := range ins.Operands(nil) {
				if *op == ssa.Value(an) {
					if d, ok := ins.(*ssa.Defer); ok && d.Call.Value == ssa.Value(an) {
						continue
					}
					if c, ok := ins.(*ssa.Call); ok && c.Call.Value == ssa.Value(an) {
						continue
					}
					return true
				}
			}
		}
	}
	return false
}

func parseSweepOpts(sw *Sweep, opts []string) {
	for _, a := range opts {
		switch {
		case strings.HasPrefix(a, "props="):
			sw.Props = strings.Split(strings.TrimPrefix(a, "props="), ",")
		case strings.HasPrefix(a, "kinds="):
			sw.Kinds = map[string]bool{}
			for _, k := range strings.Split(strings.TrimPrefix(a, "kinds="), ",") {
				sw.Kinds[k] = true
			}
		}
	}
}

func directives(cg *ast.CommentGroup) [][]string {
	var out [][]string
	if cg == nil {
		return nil
	}
	for _, c := range cg.List {
		t := strings.TrimSpace(strings.TrimPrefix(c.Text, "//"))
		if !strings.HasPrefix(t, "verif:") {
			continue
		}
		out = append(out, strings.Fields(strings.TrimPrefix(t, "verif:")))
	}
	return out
}

func (db *SpecDB) errf(format string, a ...any) {
	db.errors = append(db.errors, fmt.Sprintf(format, a...))
}

func (db *SpecDB) readFile(prog *ssa.Program, p *packages.Package, spkg *ssa.Package, f *ast.File, allFns map[string]*ssa.Function) {
	funcDocs := map[*ast.CommentGroup]bool{}
	for _, d := range f.Decls {
		fd, ok := d.(*ast.FuncDecl)
		if !ok {
			continue
		}
		funcDocs[fd.Doc] = true
		obj, _ := p.TypesInfo.Defs[fd.Name].(*types.Func)
		if obj == nil {
			continue
		}
		fn := prog.FuncValue(obj)
		if fn == nil {
			continue
		}
		var con *Contract
		for _, dir := range directives(fd.Doc) {
			switch dir[0] {
			case "contract":
				tn := expandName(strings.Join(dir[1:], " "))
				con = &Contract{Fn: fn, TargetName: tn, Pos: p.Fset.Position(fd.Pos()).String()}
				if t := allFns[tn]; t != nil {
					con.Target = t
				} else if sig := findMethodSig(prog, tn); sig != nil {
					con.Sig = sig
				} else {
					db.errf("contract %s: target %q not found", fn.Name(), tn)
					con = nil
				}
			case "lemma":
				con = &Contract{Fn: fn, Lemma: true, TargetName: "", Pos: p.Fset.Position(fd.Pos()).String()}
			}
		}
		for _, dir := range directives(fd.Doc) {
			switch dir[0] {
			case "props":
				if con != nil {
					con.Props = append(con.Props, dir[1:]...)
				}
			case "impls":
				if con != nil {
					con.Impls = append(con.Impls, dir[1:]...)
				}
			case "trusted":
				if con != nil {
					con.Trusted = true
				}
			case "kinds":
				// kinds a,b: only these obligation kinds are generated for this unit
				if con != nil {
					con.Kinds = map[string]bool{}
					for _, k := range dir[1:] {
						for _, kk := range strings.Split(k, ",") {
							con.Kinds[kk] = true
						}
					}
				}
			case "inline-known":
				if con != nil {
					con.InlineKnown = true
				}
			case "prune":
				if con != nil {
					con.Prune = true
				}
			case "preserves":
				if con != nil {
					con.Preserves = append(con.Preserves, dir[1:]...)
				}
			case "thorough":
				if con != nil {
					con.Thorough = true
				}
			case "unroll":
				// unroll <target> <ordinal> <K>: only while verifying this unit
				if con != nil && len(dir) >= 4 {
					if con.Unroll == nil {
						con.Unroll = map[string]int{}
					}
					k, _ := strconv.Atoi(dir[3])
					con.Unroll[expandName(dir[1])+"#"+dir[2]] = k
				}
			case "modifies":
				if con != nil {
					if con.Modifies == nil {
						con.Modifies = []string{}
					}
					con.Modifies = append(con.Modifies, dir[1:]...)
				}
			case "pure":
				db.pure[fn.String()] = true
			case "uninterp":
				db.uninterp[fn.String()] = true
			case "stub":
				// stub <target>: calls to target run this function instead (trusted
				// replacement for code outside the engine's reach, e.g. reflection)
				if len(dir) >= 2 {
					db.stubs[expandName(dir[1])] = fn
				}
			case "dyncall":
				// dyncall <target> <k>: this function specifies the k-th dynamic call in target
				if len(dir) >= 3 {
					db.dynCalls[expandName(dir[1])+"#"+dir[2]] = fn
					if len(dir) >= 4 && dir[3] == "always" {
						if db.dynCallsAlways == nil {
							db.dynCallsAlways = map[string]bool{}
						}
						db.dynCallsAlways[expandName(dir[1])] = true
					}
				}
			case "fieldfn":
				// fieldfn <TypeName> <field>: this function specifies calls through that func-typed field
				if len(dir) >= 3 {
					if obj := p.Types.Scope().Lookup(dir[1]); obj != nil {
						if stt, ok := obj.Type().Underlying().(*types.Struct); ok {
							for i := 0; i < stt.NumFields(); i++ {
								if stt.Field(i).Name() == dir[2] {
									db.fieldFns[fieldArrayName(obj.Type(), i)] = fn
								}
							}
						}
					}
				}
			case "invariant":
				// invariant <TypeName> <mutexField>
				if len(dir) >= 3 {
					key := p.PkgPath + "." + dir[1] + "." + dir[2]
					db.invariants[key] = append(db.invariants[key], fn)
				}
			}
		}
		if con != nil {
			if con.Target != nil || con.Sig != nil {
				if old := db.contracts[con.TargetName]; old != nil {
					// several contract functions for one target: the first is used at call sites
					db.units = append(db.units, con)
					continue
				}
				db.contracts[con.TargetName] = con
			}
			db.units = append(db.units, con)
		}
	}
	// free-standing directives
	for _, cg := range f.Comments {
		for _, dir := range directives(cg) {
			switch dir[0] {
			case "guarded":
				// guarded <TypeName> <mutexField> f1 f2 ...
				if len(dir) < 4 {
					continue
				}
				obj := p.Types.Scope().Lookup(dir[1])
				if obj == nil {
					db.errf("guarded: type %s not found in %s", dir[1], p.PkgPath)
					continue
				}
				stt, ok := obj.Type().Underlying().(*types.Struct)
				if !ok {
					continue
				}
				idx := func(name string) int {
					for i := 0; i < stt.NumFields(); i++ {
						if stt.Field(i).Name() == name {
							return i
						}
					}
					return -1
				}
				mi := idx(dir[2])
				if mi < 0 {
					db.errf("guarded: %s.%s not found", dir[1], dir[2])
					continue
				}
				key := typeKey(obj.Type())
				if db.guards[key] == nil {
					db.guards[key] = map[int]int{}
				}
				for _, fnm := range dir[3:] {
					// "Outer.Inner": only field Inner of the embedded / nested struct
					// field Outer is guarded (the rest of Outer is immutable data)
					sub := ""
					if i := strings.Index(fnm, "."); i >= 0 {
						fnm, sub = fnm[:i], fnm[i+1:]
					}
					fi := idx(fnm)
					if fi < 0 {
						db.errf("guarded: %s.%s not found", dir[1], fnm)
						continue
					}
					db.guards[key][fi] = mi
					if sub != "" {
						ist, ok := stt.Field(fi).Type().Underlying().(*types.Struct)
						si := -1
						if ok {
							for j := 0; j < ist.NumFields(); j++ {
								if ist.Field(j).Name() == sub {
									si = j
								}
							}
						}
						if si < 0 {
							db.errf("guarded: %s.%s.%s not found", dir[1], fnm, sub)
							continue
						}
						if db.guardSubs == nil {
							db.guardSubs = map[string]map[int]bool{}
						}
						k2 := fmt.Sprintf("%s#%d", key, fi)
						if db.guardSubs[k2] == nil {
							db.guardSubs[k2] = map[int]bool{}
						}
						db.guardSubs[k2][si] = true
					}
				}
			case "sweep":
				tn := expandName(dir[1])
				t := allFns[tn]
				if t == nil {
					db.errf("sweep: target %q not found", tn)
					continue
				}
				sw := &Sweep{Target: t, Name: tn}
				parseSweepOpts(sw, dir[2:])
				db.sweeps = append(db.sweeps, sw)
			case "lock-held":
				// lock-held <function> <mutexField>: the function is only called with
				// the receiver's mutex held ("hold lock before calling this function")
				if len(dir) >= 3 {
					if db.lockHeld == nil {
						db.lockHeld = map[string]string{}
					}
					db.lockHeld[expandName(dir[1])] = dir[2]
				}
			case "sweep-type":
				// sweep-type <TypeName> [props=..] [kinds=lock,nopanic]: every method of
				// the type declared in this package, and every function literal inside
				// them, is swept
				obj := p.Types.Scope().Lookup(dir[1])
				if obj == nil {
					db.errf("sweep-type: type %s not found in %s", dir[1], p.PkgPath)
					continue
				}
				var add func(f *ssa.Function)
				add = func(f *ssa.Function) {
					if f == nil || len(f.Blocks) == 0 {
						return
					}
					if strings.HasSuffix(prog.Fset.Position(f.Pos()).Filename, "_verif.go") {
						return // specification code
					}
					sw := &Sweep{Target: f, Name: f.String()}
					parseSweepOpts(sw, dir[2:])
					db.sweeps = append(db.sweeps, sw)
					for _, an := range f.AnonFuncs {
						// function literals that only run inside their parent (called or
						// deferred there) are covered by the parent's sweep; the others
						// (go statements, stored or passed callbacks) run on their own
						if closureEscapes(f, an) {
							add(an)
						}
					}
				}
				for _, t := range []types.Type{obj.Type(), types.NewPointer(obj.Type())} {
					mset := prog.MethodSets.MethodSet(t)
					for i := 0; i < mset.Len(); i++ {
						f := prog.MethodValue(mset.At(i))
						if f != nil && f.Synthetic == "" && f.Pkg == spkg {
							dup := false
							for _, s0 := range db.sweeps {
								if s0.Target == f {
									dup = true
								}
							}
							if !dup {
								add(f)
							}
						}
					}
				}
			case "loop":
				// loop <target> <ordinal> inv=<func> args=a,b | unroll=K
				if len(dir) < 4 {
					continue
				}
				tn := expandName(dir[1])
				if allFns[tn] == nil {
					db.errf("loop: target %q not found", tn)
					continue
				}
				ord, _ := strconv.Atoi(dir[2])
				la := db.loopAnns[fmt.Sprintf("%s#%d", tn, ord)]
				if la == nil {
					la = &LoopAnn{}
				}
				for _, a := range dir[3:] {
					switch {
					case strings.HasPrefix(a, "inv="):
						n := strings.TrimPrefix(a, "inv=")
						m := spkg.Func(n)
						if m == nil {
							db.errf("loop: invariant function %q not found", n)
						}
						la.Inv = m
					case strings.HasPrefix(a, "args="):
						la.Args = strings.Split(strings.TrimPrefix(a, "args="), ",")
					case strings.HasPrefix(a, "unroll="):
						la.Unroll, _ = strconv.Atoi(strings.TrimPrefix(a, "unroll="))
					}
				}
				db.loopAnns[fmt.Sprintf("%s#%d", tn, ord)] = la
			case "effectfree-iface":
				for _, n := range dir[1:] {
					db.effectFree[expandName(n)] = true
				}
			case "noblock":
				for _, n := range dir[1:] {
					tn := expandName(n)
					if strings.HasPrefix(n, "props=") || n == "recv" {
						continue
					}
					if allFns[tn] == nil {
						db.errf("noblock: target %q not found", tn)
						continue
					}
					if strings.HasPrefix(n, "props=") {
						continue
					}
					sw := &Sweep{Target: allFns[tn], Name: tn}
					for _, a := range dir[1:] {
						if strings.HasPrefix(a, "props=") {
							sw.Props = strings.Split(strings.TrimPrefix(a, "props="), ",")
						}
						if a == "recv" {
							sw.Recv = true
						}
					}
					db.noblock = append(db.noblock, sw)
				}
			case "closed-only-by":
				// closed-only-by <H.pkg.Type.field> <function>... props=…
				if len(dir) >= 3 {
					sw := &Sweep{Name: "closers:" + dir[1], CloseField: dir[1]}
					for _, a := range dir[2:] {
						if strings.HasPrefix(a, "props=") {
							sw.Props = strings.Split(strings.TrimPrefix(a, "props="), ",")
						} else {
							sw.CloseBy = append(sw.CloseBy, expandName(a))
						}
					}
					db.noblock = append(db.noblock, sw)
				}
			case "pure-fn":
				for _, n := range dir[1:] {
					db.pure[expandName(n)] = true
				}
			case "assume-typeassert":
				for _, n := range dir[1:] {
					db.assumeAssert[expandName(n)] = true
				}
			case "det-fn":
				for _, n := range dir[1:] {
					db.detFns[expandName(n)] = true
				}
			case "nullable-result":
				for _, n := range dir[1:] {
					db.nullable[expandName(n)] = true
				}
			case "keeps-args":
				for _, n := range dir[1:] {
					db.keepsArgs[expandName(n)] = true
				}
			case "getter":
				for _, n := range dir[1:] {
					db.getters[expandName(n)] = true
				}
			case "loopbody", "loopexit":
				// loopbody <target> <ordinal> check=<func> args=a,b [head=f,g]
				// loopexit <target> <ordinal> check=<func> [args=… head=…]: the same, for
				// the paths that return from inside the loop
				if len(dir) >= 4 {
					tn := expandName(dir[1])
					ord, _ := strconv.Atoi(dir[2])
					key := fmt.Sprintf("%s#%d", tn, ord)
					la := db.loopAnns[key]
					if la == nil {
						la = &LoopAnn{}
						db.loopAnns[key] = la
					}
					for _, a := range dir[3:] {
						switch {
						case strings.HasPrefix(a, "check="):
							n := strings.TrimPrefix(a, "check=")
							if m := spkg.Func(n); m != nil {
								if dir[0] == "loopexit" {
									la.Exit = m
								} else {
									la.Body = m
								}
							} else {
								db.errf("loopbody: function %q not found", n)
							}
						case strings.HasPrefix(a, "args="):
							la.BodyArgs = strings.Split(strings.TrimPrefix(a, "args="), ",")
						case strings.HasPrefix(a, "headargs="):
							la.HeadArgs = strings.Split(strings.TrimPrefix(a, "headargs="), ",")
						case strings.HasPrefix(a, "head="):
							for _, n := range strings.Split(strings.TrimPrefix(a, "head="), ",") {
								if m := spkg.Func(n); m != nil {
									la.Heads = append(la.Heads, m)
								} else {
									db.errf("loopbody: function %q not found", n)
								}
							}
						}
					}
				}
			case "inline-ext":
				db.inlineExts = append(db.inlineExts, dir[1:]...)
			case "pure-ext":
				for _, n := range dir[1:] {
					db.pureExts[expandName(n)] = true
				}
			case "table":
				for _, n := range dir[1:] {
					db.tables[expandName(n)] = true
				}
			}
		}
	}
}

// findMethodSig finds the signature of an interface method or external
// function given by full name, e.g. "(github.com/x/y.I).M".
func findMethodSig(prog *ssa.Program, name string) *types.Signature {
	if !strings.HasPrefix(name, "(") {
		return nil
	}
	i := strings.LastIndex(name, ").")
	if i < 0 {
		return nil
	}
	tn := strings.TrimPrefix(name[1:i], "*")
	mn := name[i+2:]
	j := strings.LastIndex(tn, ".")
	if j < 0 {
		return nil
	}
	pkgPath, typeName := tn[:j], tn[j+1:]
	for _, p := range prog.AllPackages() {
		if p.Pkg.Path() != pkgPath {
			continue
		}
		obj := p.Pkg.Scope().Lookup(typeName)
		if obj == nil {
			return nil
		}
		o, _, _ := types.LookupFieldOrMethod(obj.Type(), true, p.Pkg, mn)
		if f, ok := o.(*types.Func); ok {
			return f.Type().(*types.Signature)
		}
	}
	return nil
}

// dynCallOverrides: the dynamic call site has a specification function that is
// to be used even when the callee happens to be known on this path (a callback
// parameter of a generic driver loop: the driver is verified against the
// callback's specification, not against one particular callback).
func (db *SpecDB) dynCallOverrides(site ssa.Instruction) bool {
	if site == nil || site.Parent() == nil || len(db.dynCallsAlways) == 0 {
		return false
	}
	return db.dynCallsAlways[site.Parent().String()] && db.dynCallSpec(site) != nil
}

// dynCallSpec: specification function for a dynamic call site, if declared.
func (db *SpecDB) dynCallSpec(site ssa.Instruction) *ssa.Function {
	if site == nil || site.Parent() == nil || len(db.dynCalls) == 0 {
		return nil
	}
	fn := site.Parent()
	k := 0
	for _, b := range fn.Blocks {
		for _, ins := range b.Instrs {
			var cc *ssa.CallCommon
			switch c := ins.(type) {
			case *ssa.Call:
				cc = &c.Call
			case *ssa.Defer:
				cc = &c.Call
			}
			if cc == nil || cc.IsInvoke() || cc.StaticCallee() != nil {
				continue
			}
			if _, isB := cc.Value.(*ssa.Builtin); isB {
				continue
			}
			if _, isMC := cc.Value.(*ssa.MakeClosure); isMC {
				continue
			}
			k++
			if ins == site {
				return db.dynCalls[fmt.Sprintf("%s#%d", fn.String(), k)]
			}
		}
	}
	return nil
}
