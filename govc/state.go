package main

import (
	"fmt"
	"go/token"
	"go/types"
	"sort"
	"strings"
	"sync"

	"golang.org/x/tools/go/ssa"
)

type AddrKind int

const (
	AObj     AddrKind = iota // pointer to a struct object (heap, by ref term)
	AField                   // pointer to a non-struct field of a heap object
	ACell                    // pointer to a local cell
	AGlobal                  // pointer to a package-level variable (non-struct)
	APtr                     // opaque pointer to a non-struct value
	AElem                    // pointer to a slice element (value-semantics slice)
	AArrCell                 // pointer to an element of a local array cell
)

type Cell struct {
	id   int
	name string
	ty   types.Type
}

type Addr struct {
	Kind       AddrKind
	Ref        string
	Ty         types.Type // AObj: struct type; AField: containing struct type; APtr/ACell: elem type
	Field      int
	Cell       *Cell
	Idx        string
	Slice      *Val
	Glob       *ssa.Global
	Sel        []int     // selector path inside a by-value struct held in a cell / element
	Guard      string    // lock key required to touch what this address designates ("" = none)
	Fresh      bool      // designates an object allocated on this path
	rebind     func(Val) // AElem: re-binds the SSA value naming the slice after an element store
	owner      *Addr     // AObj sub-object: containing object
	ownerField int
}

type Closure struct {
	Fn       *ssa.Function
	Bindings []Val
}

type IterInfo struct {
	Map    *Val
	IsStr  bool
	Visit  string // ghost visited-set array term name (unused for now)
	MapTy  *types.Map
	Frozen bool
}

type Val struct {
	T        string
	S        Sort
	Ty       types.Type
	Addr     *Addr
	Clo      *Closure
	Tup      []Val
	Fields   []Val // by-value struct built Go-side
	Inner    *Val  // payload of a boxed interface value, when known on this path
	MaybeNil bool
	NilIface bool // interface value a specification (verif.Nullable) or a library model declared possibly nil: calling through it is an obligation
	Iter     *IterInfo
	Guard    string // lock key guarding the contents designated by this value (maps/slices from guarded fields)
	Fresh    bool   // freshly allocated on this path (maps, objects)
	Origin   string // heap field array the value was loaded from
}

type Deferred struct {
	Fn   Val // closure or static function
	Call *ssa.CallCommon
	Args []Val
	Site ssa.Instruction
}

type FrameMode int

const (
	ModeNormal FrameMode = iota
	ModeContractVerify
	ModeContractUse
	ModePure
)

type Frame struct {
	loopHead    map[*ssa.BasicBlock][]Val
	loopHeld    map[*ssa.BasicBlock]map[string]int // mutexes held when a cut loop was entered
	fn          *ssa.Function
	env         map[ssa.Value]Val
	names       map[string]Val
	defers      []Deferred
	parent      *Frame
	mode        FrameMode
	depth       int
	cut         map[*ssa.BasicBlock]bool
	unroll      map[*ssa.BasicBlock]int
	prev        *ssa.BasicBlock
	leftFrom    map[*ssa.BasicBlock]*ssa.BasicBlock // cut loop header -> the loop block this path left the loop from
	hasRec      bool                                // has a deferred closure that calls recover()
	con         *Contract
	useCtx      *useCtx
	bound       []string // quantified variables (ModeContractUse / pure-forall)
	selfRun     bool     // frame is the inlined target of a contract self-call
	isInit      bool
	stopAt      *ssa.BasicBlock
	conBindings []Val
}

func (f *Frame) clone() *Frame {
	g := *f
	g.env = make(map[ssa.Value]Val, len(f.env)+8)
	for k, v := range f.env {
		g.env[k] = v
	}
	g.names = make(map[string]Val, len(f.names))
	for k, v := range f.names {
		g.names[k] = v
	}
	g.defers = append([]Deferred(nil), f.defers...)
	g.cut = make(map[*ssa.BasicBlock]bool, len(f.cut))
	for k, v := range f.cut {
		g.cut[k] = v
	}
	if f.leftFrom != nil {
		g.leftFrom = make(map[*ssa.BasicBlock]*ssa.BasicBlock, len(f.leftFrom))
		for k, v := range f.leftFrom {
			g.leftFrom[k] = v
		}
	}
	g.unroll = make(map[*ssa.BasicBlock]int, len(f.unroll))
	for k, v := range f.unroll {
		g.unroll[k] = v
	}
	return &g
}

func (f *Frame) underRecover() bool {
	for g := f; g != nil; g = g.parent {
		if g.hasRec {
			return true
		}
	}
	return false
}

type Event struct {
	Name string
	Args []Val
	Ret  Val
}

type State struct {
	pc          []string
	heap        map[string]string
	epoch       int
	cells       map[*Cell]Val
	globals     map[*ssa.Global]Val
	held        map[string]int // 1 = write, 2 = read
	released    map[string]bool
	trace       []string
	nfresh      int
	dead        bool
	events      []Event
	ghost       map[string]string // named ghost scalars (terms)
	dirty       map[string]bool   // heap arrays written at a location that existed before this path (frame)
	pendingZero []string
	closures    []Val                     // closures created on this path (most recent last)
	lit         map[string]map[string]Val // heap array -> literal index -> stored value (fresh objects)
}

func newState() *State {
	return &State{heap: map[string]string{}, cells: map[*Cell]Val{}, globals: map[*ssa.Global]Val{}, held: map[string]int{}, released: map[string]bool{}, ghost: map[string]string{}, dirty: map[string]bool{}, lit: map[string]map[string]Val{}}
}

func (s *State) clone() *State {
	t := &State{epoch: s.epoch, nfresh: s.nfresh}
	t.pc = s.pc[:len(s.pc):len(s.pc)]
	t.trace = s.trace[:len(s.trace):len(s.trace)]
	t.events = s.events[:len(s.events):len(s.events)]
	t.heap = make(map[string]string, len(s.heap))
	for k, v := range s.heap {
		t.heap[k] = v
	}
	t.cells = make(map[*Cell]Val, len(s.cells))
	for k, v := range s.cells {
		t.cells[k] = v
	}
	t.globals = make(map[*ssa.Global]Val, len(s.globals))
	for k, v := range s.globals {
		t.globals[k] = v
	}
	t.held = make(map[string]int, len(s.held))
	for k, v := range s.held {
		t.held[k] = v
	}
	t.released = make(map[string]bool, len(s.released))
	for k, v := range s.released {
		t.released[k] = v
	}
	t.lit = make(map[string]map[string]Val, len(s.lit))
	for k, v := range s.lit {
		m := make(map[string]Val, len(v))
		for a, b := range v {
			m[a] = b
		}
		t.lit[k] = m
	}
	t.pendingZero = append([]string(nil), s.pendingZero...)
	t.closures = s.closures[:len(s.closures):len(s.closures)]
	t.dirty = make(map[string]bool, len(s.dirty))
	for k, v := range s.dirty {
		t.dirty[k] = v
	}
	t.ghost = make(map[string]string, len(s.ghost))
	for k, v := range s.ghost {
		t.ghost[k] = v
	}
	return t
}

func (s *State) assume(c string) {
	if c == "true" || c == "" {
		return
	}
	s.pc = append(s.pc, c)
}

type Obligation struct {
	Name     string
	Kind     string
	Unit     string // verification unit (contract function / sweep target)
	Pos      string
	Goal     string
	Trace    []string
	Static   bool // decided syntactically
	StaticOK bool
	Note     string
	body     string
	pcRef    []string // the path condition this obligation was generated under (vacuity check)
	Result   SolveResult
	PathID   int
}

type Unsupported struct {
	Unit string
	What string
	Pos  string
}

// Run is one verification run over a loaded program.
type Run struct {
	prog            *ssa.Program
	fset            *token.FileSet
	d               *Decls
	spec            *SpecDB
	arrSorts        map[string]Sort
	arrRefEl        map[string]bool
	arrSliceRefEl   map[string]string // arrays whose elements are slices of references: slice sort
	libFieldArr     map[string]bool   // field arrays of library (non-frp) struct types
	mu              sync.Mutex
	obls            []*Obligation
	wg              sync.WaitGroup
	unsup           []Unsupported
	unit            string
	cellN           int
	pathN           int
	maxPaths        int
	timeout         int
	maxDepth        int
	assumed         []string // verifAssume records
	trusted         map[string]bool
	modCache        map[*ssa.Function]*ModSet
	pathsCut        bool
	noInterfere     bool
	sliceWriteCache map[*ssa.Function]bool
	pruneAll        bool // contract directive "prune"
	inlined         map[string]bool
	opaque          map[string]bool
	curProps        []string
	stepN           int
	pureDepth       int
	curCon          *Contract
	closable        map[string]bool
	captureReader   *ssa.Function   // capture check: the callback whose reads decide whether a later field store matters
	kindFilter      map[string]bool // sweeps: obligation kinds to generate (nil: all)
	sendable        map[string]bool
	mutFields       []mutField // fields assigned outside construction (interference at blocking receives)
	ctxInner        map[string]Val
	mapZero         map[string]string // Mv array name -> zero term of the element type
	inInit          bool
}

func (x *Run) unsupported(what string, pos token.Pos) {
	x.mu.Lock()
	defer x.mu.Unlock()
	p := ""
	if pos.IsValid() {
		p = x.fset.Position(pos).String()
	}
	for _, u := range x.unsup {
		if u.Unit == x.unit && u.What == what {
			return
		}
	}
	x.unsup = append(x.unsup, Unsupported{x.unit, what, p})
}

func (x *Run) posStr(pos token.Pos) string {
	if !pos.IsValid() {
		return ""
	}
	p := x.fset.Position(pos)
	return fmt.Sprintf("%s:%d", strings.TrimPrefix(p.Filename, "/repo/"), p.Line)
}

// ---- heap arrays ----

func (x *Run) arrSort(name string, s Sort) {
	x.mu.Lock()
	if _, ok := x.arrSorts[name]; !ok {
		x.arrSorts[name] = s
	}
	x.mu.Unlock()
}

func (x *Run) baseArr(name string, epoch int) string {
	x.mu.Lock()
	s := x.arrSorts[name]
	refEl := x.arrRefEl[name]
	x.mu.Unlock()
	c := sanitize(fmt.Sprintf("%s$e%d", name, epoch))
	x.d.raw("c."+c, fmt.Sprintf("(declare-const %s %s)", c, s))
	if strings.HasPrefix(name, "Mv.") {
		x.mapZeroAxiom(c, sanitize(fmt.Sprintf("Md.%s$e%d", name[3:], epoch)), name)
	}
	if epoch == 0 && x.arrSliceRefEl[name] != "" {
		// references inside slices held in the initial heap are not objects allocated later
		ss := x.arrSliceRefEl[name]
		if strings.HasPrefix(string(s), "(Array Int (Array") {
			ks := mapKeySortOfArr(s)
			x.d.raw("ax.sl."+c, fmt.Sprintf("(assert (forall ((r Int) (k %s) (i Int)) (! (>= (select (sarr_%s (select (select %s r) k)) i) 0) :pattern ((select (sarr_%s (select (select %s r) k)) i)))))", ks, ss, c, ss, c))
		} else {
			x.d.raw("ax.sl."+c, fmt.Sprintf("(assert (forall ((r Int) (i Int)) (! (>= (select (sarr_%s (select %s r)) i) 0) :pattern ((select (sarr_%s (select %s r)) i)))))", ss, c, ss, c))
		}
	}
	if epoch == 0 && refEl {
		// references held in the initial heap are not objects allocated later
		if strings.HasPrefix(string(s), "(Array Int (Array") {
			// map value arrays: two-level
			ks := mapKeySortOfArr(s)
			x.d.raw("ax."+c, fmt.Sprintf("(assert (forall ((r Int) (k %s)) (! (>= (select (select %s r) k) 0) :pattern ((select (select %s r) k)))))", ks, c, c))
		} else {
			x.d.raw("ax."+c, fmt.Sprintf("(assert (forall ((r Int)) (! (>= (select %s r) 0) :pattern ((select %s r)))))", c, c))
		}
	}
	return c
}

func mapKeySortOfArr(s Sort) string {
	// s = (Array Int (Array K V)) ; extract K (balanced)
	str := string(s)
	inner := strings.TrimPrefix(str, "(Array Int (Array ")
	// K is the first balanced token
	depth := 0
	for i, c := range inner {
		if c == '(' {
			depth++
		} else if c == ')' {
			depth--
		}
		if depth == 0 && (c == ' ' || c == ')') && i > 0 {
			if c == ')' {
				return inner[:i+1]
			}
			return inner[:i]
		}
	}
	return "Int"
}

// mapZeroAxiom: rows of a map value array hold the zero value at absent keys.
func (x *Run) mapZeroAxiom(valConst, domConst, valName string) {
	x.mu.Lock()
	vs := x.arrSorts[valName]
	ds, ok := x.arrSorts["Md."+valName[3:]]
	zero := x.mapZero[valName]
	x.mu.Unlock()
	if !ok || zero == "" {
		return
	}
	x.d.raw("c."+domConst, fmt.Sprintf("(declare-const %s %s)", domConst, ds))
	ks := mapKeySortOfArr(vs)
	lnConst := sanitize(strings.Replace(domConst, "Md.", "Ml.", 1))
	if _, ok := x.arrSorts["Ml."+valName[3:]]; ok {
		x.d.raw("c."+lnConst, fmt.Sprintf("(declare-const %s (Array Int Int))", lnConst))
		x.d.raw("ax.len."+domConst, fmt.Sprintf("(assert (forall ((m Int) (k %s)) (! (=> (select (select %s m) k) (>= (select %s m) 1)) :pattern ((select (select %s m) k)))))", ks, domConst, lnConst, domConst))
	}
	x.d.raw("ax.nilmap."+domConst, fmt.Sprintf("(assert (forall ((k %s)) (! (not (select (select %s 0) k)) :pattern ((select (select %s 0) k)))))", ks, domConst, domConst))
	x.d.raw("ax.zero."+valConst, fmt.Sprintf("(assert (forall ((m Int) (k %s)) (! (=> (not (select (select %s m) k)) (= (select (select %s m) k) %s)) :pattern ((select (select %s m) k)))))", ks, domConst, valConst, zero, valConst))
}

func (x *Run) arr(st *State, name string) string {
	if t, ok := st.heap[name]; ok {
		return t
	}
	return x.baseArr(name, st.epoch)
}

func (x *Run) setArr(st *State, name, term string) {
	x.mu.Lock()
	s := x.arrSorts[name]
	x.mu.Unlock()
	if len(term) > 200 && x.pureDepth == 0 {
		c := x.d.fresh(name+"$v", s)
		st.assume(eq(c, term))
		term = c
	}
	st.heap[name] = term
}

func (x *Run) havocArr(st *State, name string) {
	x.mu.Lock()
	s, ok := x.arrSorts[name]
	x.mu.Unlock()
	if !ok {
		return
	}
	st.heap[name] = x.d.fresh(name+"$h", s)
	if strings.HasPrefix(name, "Mv.") {
		x.mu.Lock()
		st.pendingZero = append(st.pendingZero, name)
		x.mu.Unlock()
	}
	st.dirty[name] = true
	delete(st.lit, name)
}

// havocAll forgets the whole modelled heap.
func (x *Run) havocAll(st *State) {
	st.epoch++
	// a fresh epoch number must be globally unique
	x.mu.Lock()
	x.cellN++
	st.epoch = 1000 + x.cellN
	x.mu.Unlock()
	st.heap = map[string]string{}
	st.lit = map[string]map[string]Val{}
	st.dirty["*"] = true
}

// havocAllExcept forgets the heap but keeps the arrays whose name contains one
// of the given substrings (a contract's "preserves" clause).
func (x *Run) havocAllExcept(st *State, keep []string) {
	if len(keep) == 0 {
		x.havocAll(st)
		return
	}
	saved := map[string]string{}
	x.mu.Lock()
	var names []string
	for n := range x.arrSorts {
		names = append(names, n)
	}
	x.mu.Unlock()
	for _, n := range names {
		for _, k := range keep {
			if strings.Contains(n, k) {
				saved[n] = x.arr(st, n)
			}
		}
	}
	lit := st.lit
	x.havocAll(st)
	for n, t := range saved {
		st.heap[n] = t
		if l, ok := lit[n]; ok {
			st.lit[n] = l
		}
	}
}

func (x *Run) newCell(name string, ty types.Type) *Cell {
	x.mu.Lock()
	x.cellN++
	id := x.cellN
	x.mu.Unlock()
	return &Cell{id: id, name: name, ty: ty}
}

func sortedKeys[M ~map[string]V, V any](m M) []string {
	ks := make([]string, 0, len(m))
	for k := range m {
		ks = append(ks, k)
	}
	sort.Strings(ks)
	return ks
}

type mutField struct {
	ty  types.Type
	idx int
}

// interfere: a blocking receive is a point where other goroutines have run.
// Unguarded fields that some statement assigns outside construction hold
// unknown values afterwards (guarded fields are re-read under their lock; the
// monitor rule covers them). Not a write of the function under contract.
func (x *Run) interfere(fr *Frame, st *State) {
	if fr.inPure() || fr.inSpec() || x.noInterfere {
		return
	}
	for _, mf := range x.mutFields {
		if x.spec.guardOf(mf.ty, mf.idx) >= 0 {
			continue
		}
		stt, _ := structOf(mf.ty)
		ft := stt.Field(mf.idx).Type()
		if strings.HasPrefix(ft.String(), "sync.") {
			continue
		}
		// configuration objects and protocol messages are built (loaded,
		// completed, decoded) before they are shared and not assigned afterwards:
		// assumed (A-CONFIG), listed
		if tk := typeKey(mf.ty); strings.HasPrefix(tk, frpPrefix+"/pkg/config/") || strings.HasPrefix(tk, frpPrefix+"/pkg/msg.") {
			continue
		}
		name := fieldArrayName(mf.ty, mf.idx)
		x.mu.Lock()
		s, ok := x.arrSorts[name]
		x.mu.Unlock()
		if !ok {
			continue
		}
		st.heap[name] = x.d.fresh(name+"$i", s)
		delete(st.lit, name)
	}
	st.trace = append(st.trace, "sync")
}
