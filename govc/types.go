package main

// Go type -> SMT sort mapping, heap array naming, zero values.

import (
	"fmt"
	"go/types"
	"strings"
)

func typeKey(t types.Type) string {
	return types.TypeString(t, func(p *types.Package) string { return p.Path() })
}

func shortTypeName(t types.Type) string {
	s := typeKey(t)
	s = strings.ReplaceAll(s, "github.com/fatedier/frp/", "")
	s = strings.ReplaceAll(s, "github.com/fatedier/", "")
	return sanitize(s)
}

func (d *Decls) sortOf(t types.Type) Sort {
	t = types.Unalias(t)
	key := typeKey(t)
	d.mu.Lock()
	if s, ok := d.sorts[key]; ok {
		d.mu.Unlock()
		return s
	}
	d.mu.Unlock()
	s := d.sortOf0(t)
	d.mu.Lock()
	d.sorts[key] = s
	d.mu.Unlock()
	return s
}

func (d *Decls) sortOf0(t types.Type) Sort {
	switch u := t.(type) {
	case *types.Named:
		if st, ok := u.Underlying().(*types.Struct); ok {
			return d.structSort(shortTypeName(u), st)
		}
		return d.sortOf(u.Underlying())
	case *types.Basic:
		info := u.Info()
		switch {
		case info&types.IsBoolean != 0:
			return SBool
		case info&types.IsInteger != 0:
			return SInt
		case info&types.IsString != 0:
			return SStr
		case info&types.IsFloat != 0:
			return SReal
		case u.Kind() == types.UnsafePointer, u.Kind() == types.UntypedNil:
			return SInt
		case info&types.IsComplex != 0:
			return SReal
		}
		return SInt
	case *types.Pointer, *types.Map, *types.Chan, *types.Signature:
		return SInt
	case *types.Interface:
		return SIface
	case *types.TypeParam:
		return SIface
	case *types.Struct:
		return d.structSort(shortTypeName(u), u)
	case *types.Slice:
		es := d.sortOf(u.Elem())
		name := Sort("Slice_" + sortMangle(es))
		d.raw("sort."+string(name), fmt.Sprintf("(declare-datatypes ((%s 0)) (((mk_%s (sarr_%s (Array Int %s)) (slen_%s Int)))))", name, name, name, es, name))
		d.mu.Lock()
		d.slices[name] = es
		d.mu.Unlock()
		return name
	case *types.Array:
		es := d.sortOf(u.Elem())
		return Sort(fmt.Sprintf("(Array Int %s)", es))
	case *types.Tuple:
		if u.Len() == 0 {
			return SUnit
		}
		if u.Len() == 1 {
			return d.sortOf(u.At(0).Type())
		}
		return "Tuple"
	}
	return SInt
}

func sortMangle(s Sort) string {
	r := strings.NewReplacer("(", "_", ")", "_", " ", "_").Replace(string(s))
	return r
}

func (d *Decls) structSort(name string, st *types.Struct) Sort {
	if st.NumFields() == 0 {
		return SUnit
	}
	s := Sort("S_" + name)
	d.mu.Lock()
	if _, ok := d.structs[s]; ok {
		d.mu.Unlock()
		return s
	}
	info := &structInfo{sort: s, ty: st}
	d.structs[s] = info
	d.mu.Unlock()
	var parts []string
	for i := 0; i < st.NumFields(); i++ {
		f := st.Field(i)
		fs := d.sortOf(f.Type())
		info.fields = append(info.fields, fs)
		info.names = append(info.names, f.Name())
		parts = append(parts, fmt.Sprintf("(%s %s)", fieldSel(s, i), fs))
	}
	d.raw("sort."+string(s), fmt.Sprintf("(declare-datatypes ((%s 0)) (((mk_%s %s))))", s, s, strings.Join(parts, " ")))
	return s
}

func fieldSel(s Sort, i int) string { return fmt.Sprintf("%s_f%d", s, i) }

// zero value term for a type.
func (d *Decls) zero(t types.Type) string {
	t = types.Unalias(t)
	s := d.sortOf(t)
	switch s {
	case SInt:
		return "0"
	case SBool:
		return "false"
	case SStr:
		return d.lit("")
	case SReal:
		return "0.0"
	case SIface:
		return "inil"
	case SUnit:
		return "unit"
	}
	switch u := t.Underlying().(type) {
	case *types.Struct:
		args := make([]string, u.NumFields())
		for i := range args {
			args[i] = d.zero(u.Field(i).Type())
		}
		return app("mk_"+string(s), args...)
	case *types.Slice:
		es := d.sortOf(u.Elem())
		return fmt.Sprintf("(mk_%s %s 0)", s, d.constArray("Int", es, d.zero(u.Elem())))
	case *types.Array:
		es := d.sortOf(u.Elem())
		return d.constArray("Int", es, d.zero(u.Elem()))
	}
	return "0"
}

// structOf returns the struct type and its naming type for t (named struct or struct).
func structOf(t types.Type) (*types.Struct, bool) {
	t = types.Unalias(t)
	st, ok := t.Underlying().(*types.Struct)
	return st, ok
}

func isStruct(t types.Type) bool {
	st, ok := structOf(t)
	return ok && st.NumFields() > 0
}

func fieldArrayName(t types.Type, i int) string {
	st, _ := structOf(t)
	return "H." + shortTypeName(types.Unalias(t)) + "." + st.Field(i).Name()
}

func isRefType(t types.Type) bool {
	switch types.Unalias(t).Underlying().(type) {
	case *types.Pointer, *types.Map, *types.Chan:
		return true
	}
	return false
}

// intRange returns (lo, hi, ok) for integer basic types.
func intRange(t types.Type) (string, string, bool) {
	b, ok := types.Unalias(t).Underlying().(*types.Basic)
	if !ok {
		return "", "", false
	}
	switch b.Kind() {
	case types.Int, types.Int64:
		return "(- 9223372036854775808)", "9223372036854775807", true
	case types.Int32:
		return "(- 2147483648)", "2147483647", true
	case types.Int16:
		return "(- 32768)", "32767", true
	case types.Int8:
		return "(- 128)", "127", true
	case types.Uint, types.Uint64, types.Uintptr:
		return "0", "18446744073709551615", true
	case types.Uint32:
		return "0", "4294967295", true
	case types.Uint16:
		return "0", "65535", true
	case types.Uint8:
		return "0", "255", true
	}
	return "", "", false
}

func isUnsigned(t types.Type) bool {
	b, ok := types.Unalias(t).Underlying().(*types.Basic)
	return ok && b.Info()&types.IsUnsigned != 0
}

// constArray: an array holding v everywhere. Solvers accept (as const ...)
// only for value literals; for other element terms a named constant with an
// axiom is used.
func (d *Decls) constArray(ks string, es Sort, v string) string {
	switch v {
	case "0", "false", "true", "0.0", "unit", "inil":
		return fmt.Sprintf("((as const (Array %s %s)) %s)", ks, es, v)
	}
	name := sanitize("constarr." + ks + "." + sortMangle(es) + "." + fmt.Sprint(hashStr(v)))
	d.raw("c."+name, fmt.Sprintf("(declare-const %s (Array %s %s))", name, ks, es))
	d.raw("ax."+name, fmt.Sprintf("(assert (forall ((i %s)) (! (= (select %s i) %s) :pattern ((select %s i)))))", ks, name, v, name))
	return name
}
