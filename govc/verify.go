package main

import (
	"fmt"
	"go/token"
	"go/types"
	"strings"

	"golang.org/x/tools/go/ssa"
)

func typesNewPointer(t *ssa.Type) types.Type { return types.NewPointer(t.Type()) }

func (x *Run) paramVals(st *State, fn *ssa.Function) []Val {
	var args []Val
	for _, p := range fn.Params {
		v := x.freshVal(st, "p_"+p.Name(), p.Type())
		if _, ok := types.Unalias(p.Type()).Underlying().(*types.Pointer); ok {
			st.assume(fmt.Sprintf("(> %s 0)", v.T))
		} else if isRefType(p.Type()) {
			st.assume(fmt.Sprintf("(>= %s 0)", v.T))
		}
		args = append(args, v)
	}
	return args
}

func (x *Run) verifyContract(con *Contract) []*State {
	var finals []*State
	x.curCon = con
	run := func(args []Val, st *State) {
		fr := &Frame{fn: con.Fn, env: map[ssa.Value]Val{}, names: map[string]Val{}, mode: ModeContractVerify, cut: map[*ssa.BasicBlock]bool{}, unroll: map[*ssa.BasicBlock]int{}, con: con}
		outs := x.runFrame(fr, args, nil, st)
		for _, o := range outs {
			if !o.panic {
				finals = append(finals, o.st)
			}
		}
	}
	if len(con.Impls) == 0 {
		st := newState()
		x.initTables(st)
		args := x.paramVals(st, con.Fn)
		run(args, st)
		return finals
	}
	base := x.unit
	for _, impl := range con.Impls {
		ty := x.lookupType(expandName(impl))
		if ty == nil {
			x.unsupported("impl type not found: "+impl, con.Fn.Pos())
			continue
		}
		x.unit = base + "[" + shortTypeName(ty) + "]"
		st := newState()
		args := x.paramVals(st, con.Fn)
		inner := x.freshVal(st, "recv", ty)
		if _, ok := ty.Underlying().(*types.Pointer); ok {
			st.assume(fmt.Sprintf("(> %s 0)", inner.T))
		}
		args[0] = x.box(st, inner, con.Fn.Params[0].Type())
		run(args, st)
	}
	x.unit = base
	return finals
}

func (x *Run) lookupType(name string) types.Type {
	ptr := strings.HasPrefix(name, "*")
	name = strings.TrimPrefix(name, "*")
	i := strings.LastIndex(name, ".")
	if i < 0 {
		return nil
	}
	pkgPath, tn := name[:i], name[i+1:]
	for _, p := range x.prog.AllPackages() {
		if p.Pkg.Path() == pkgPath {
			obj := p.Pkg.Scope().Lookup(tn)
			if obj == nil {
				return nil
			}
			if ptr {
				return types.NewPointer(obj.Type())
			}
			return obj.Type()
		}
	}
	return nil
}

func (x *Run) verifySweep(sw *Sweep) []*State {
	st := newState()
	x.initTables(st)
	args := x.paramVals(st, sw.Target)
	fr := &Frame{fn: sw.Target, env: map[ssa.Value]Val{}, names: map[string]Val{}, mode: ModeNormal, cut: map[*ssa.BasicBlock]bool{}, unroll: map[*ssa.BasicBlock]int{}, selfRun: true}
	var bindings []Val
	for _, fv := range sw.Target.FreeVars {
		// closures swept directly: captured variables are arbitrary cells
		el := fv.Type().Underlying().(*types.Pointer).Elem()
		if isStruct(el) {
			ref := x.freshVal(st, "fv_"+fv.Name(), fv.Type())
			st.assume(fmt.Sprintf("(> %s 0)", ref.T))
			bindings = append(bindings, ref)
		} else {
			c := x.newCell(fv.Name(), el)
			st.cells[c] = x.freshVal(st, "fv_"+fv.Name(), el)
			a := &Addr{Kind: ACell, Cell: c, Ty: el}
			bindings = append(bindings, Val{T: x.ptrTerm(a), S: SInt, Ty: fv.Type(), Addr: a})
		}
	}
	if key := x.heldLockKey(sw.Target, args); key != "" {
		st.held[key] = 1 // declared: callers hold the receiver's mutex
		st.ghost["assumedheld:"+key] = "1"
	}
	outs := x.runFrame(fr, args, bindings, st)
	var finals []*State
	for _, o := range outs {
		if !o.panic {
			finals = append(finals, o.st)
		}
	}
	return finals
}

// heldLockKey: for a function declared "lock-held", the lock key of its
// receiver's mutex ("" otherwise).
func (x *Run) heldLockKey(fn *ssa.Function, args []Val) string {
	mf := x.spec.lockHeld[fn.String()]
	if mf == "" || len(args) == 0 {
		return ""
	}
	recv := args[0]
	pt, ok := types.Unalias(recv.Ty).Underlying().(*types.Pointer)
	if !ok {
		return ""
	}
	stt, ok := structOf(pt.Elem())
	if !ok {
		return ""
	}
	for i := 0; i < stt.NumFields(); i++ {
		if stt.Field(i).Name() == mf {
			return x.lockKey(&Addr{Kind: AField, Ref: recv.T, Ty: pt.Elem(), Field: i})
		}
	}
	return ""
}

// checkNoBlock: structural bounded-blocking check.  Every channel send in fn
// (and its closures) must be a case of a select with another case or default:
// a bare send blocks for ever when the receiver is gone, so whatever the
// sender holds (a session entry, a goroutine) is never released.
//
// With the option "recv" the same holds for receives: a bare receive waits for
// ever when nobody sends or closes, so a waiter that must notice some other
// event (its own listener being closed) has to watch for it in the same select.
func (x *Run) checkNoBlock(fn *ssa.Function, recv bool) {
	var walk func(f *ssa.Function)
	walk = func(f *ssa.Function) {
		n := 0
		nr := 0
		for _, b := range f.Blocks {
			for _, ins := range b.Instrs {
				switch i := ins.(type) {
				case *ssa.UnOp:
					if recv && i.Op == token.ARROW {
						nr++
						x.obligeStatic(newState(), fmt.Sprintf("bounded-block.%s.recv#%d", x.fnShort(f), nr), "bounded-block", false, i.Pos(), "bare blocking channel receive")
					}
				case *ssa.Send:
					n++
					x.obligeStatic(newState(), fmt.Sprintf("bounded-block.%s.send#%d", x.fnShort(f), n), "bounded-block", false, i.Pos(), "bare blocking channel send")
				case *ssa.Select:
					for _, s := range i.States {
						if s.Dir == types.SendOnly {
							n++
							ok := len(i.States) > 1 || !i.Blocking
							x.obligeStatic(newState(), fmt.Sprintf("bounded-block.%s.send#%d", x.fnShort(f), n), "bounded-block", ok, i.Pos(), "send inside select")
						} else if recv {
							nr++
							ok := len(i.States) > 1 || !i.Blocking
							x.obligeStatic(newState(), fmt.Sprintf("bounded-block.%s.recv#%d", x.fnShort(f), nr), "bounded-block", ok, i.Pos(), "receive inside select")
						}
					}
				}
			}
		}
		for _, an := range f.AnonFuncs {
			walk(an)
		}
	}
	walk(fn)
}

// initTables imports package-level tables by executing the package
// initialiser symbolically, and checks that nothing else stores to them.
func (x *Run) initTables(st *State) {
	if len(x.spec.tables) == 0 {
		return
	}
	byPkg := map[*ssa.Package][]*ssa.Global{}
	for _, name := range sortedKeys(x.spec.tables) {
		i := strings.LastIndex(name, ".")
		if i < 0 {
			continue
		}
		// tables are imported for units of the package that declares them
		if x.curCon == nil || x.curCon.Fn.Pkg == nil || x.curCon.Fn.Pkg.Pkg.Path() != name[:i] {
			continue
		}
		for _, p := range x.prog.AllPackages() {
			if p.Pkg.Path() == name[:i] {
				if g, ok := p.Members[name[i+1:]].(*ssa.Global); ok {
					byPkg[p] = append(byPkg[p], g)
				}
			}
		}
	}
	for p, gs := range byPkg {
		init := p.Func("init")
		if init == nil {
			continue
		}
		tmp := newState()
		tmp.nfresh = 500000
		saveUnit := x.unit
		fr := &Frame{fn: init, env: map[ssa.Value]Val{}, names: map[string]Val{}, mode: ModeNormal, cut: map[*ssa.BasicBlock]bool{}, unroll: map[*ssa.BasicBlock]int{}, selfRun: true, isInit: true}
		x.inInit = true
		outs := x.runFrame(fr, nil, nil, tmp)
		x.inInit = false
		x.unit = saveUnit
		if len(outs) != 1 || outs[0].panic {
			x.unsupported(fmt.Sprintf("package init of %s has %d symbolic outcomes", p.Pkg.Path(), len(outs)), init.Pos())
			continue
		}
		copiedPC := false
		for _, g := range gs {
			if v, ok := outs[0].st.globals[g]; ok {
				st.globals[g] = v
			}
			// a map-typed table lives in the map arrays of its type: import the
			// rows the initialiser built (new map objects have negative
			// references, distinct from everything in the unit's initial heap)
			if mt := mapTypeOf(g.Type().(*types.Pointer).Elem()); mt != nil {
				a := x.mapArrs(mt)
				for _, n := range []string{a.dom, a.val, a.ln} {
					if t, ok := outs[0].st.heap[n]; ok {
						st.heap[n] = t
					}
				}
			}
			if !copiedPC {
				copiedPC = true
				for _, c := range outs[0].st.pc {
					st.assume(pcPlain(c)) // definitional equalities introduced while evaluating the initialiser
				}
			}
			// no function other than init stores to the table
			ok := true
			for _, m := range p.Members {
				f, isF := m.(*ssa.Function)
				if !isF || f == init {
					continue
				}
				if storesToGlobal(f, g) {
					ok = false
				}
			}
			x.obligeStatic(st, "table.noglobalstore."+g.Name(), "table", ok, g.Pos(), "package-level table written only by its initialiser")
		}
	}
}

func storesToGlobal(f *ssa.Function, g *ssa.Global) bool {
	for _, b := range f.Blocks {
		for _, ins := range b.Instrs {
			if s, ok := ins.(*ssa.Store); ok && s.Addr == ssa.Value(g) {
				return true
			}
		}
	}
	for _, an := range f.AnonFuncs {
		if storesToGlobal(an, g) {
			return true
		}
	}
	return false
}

// checkGoShare: structural check for goroutine hand-offs. A variable (or the
// object it points to) captured by a `go func(){...}()` closure must not be
// written by the spawning function at any point reachable after the go
// statement without passing the variable's own allocation again (i.e. each
// goroutine gets its own object). Otherwise the goroutine may observe a later
// value - e.g. every close notification naming the last proxy of a loop.
func (x *Run) checkGoShare(fn *ssa.Function) {
	// callbacks stored for later (appended to a list, stored in a field): the
	// variables they capture must not be written after the callback was created
	nc := 0
	for _, b := range fn.Blocks {
		for idx, ins := range b.Instrs {
			mc, ok := ins.(*ssa.MakeClosure)
			if !ok {
				continue
			}
			stored := false
			for _, r := range *mc.Referrers() {
				switch c := r.(type) {
				case *ssa.Store:
					if c.Val == ssa.Value(mc) {
						stored = true
					}
				case *ssa.MapUpdate:
					stored = true
				case *ssa.MakeInterface:
					stored = true
				}
			}
			if !stored {
				continue
			}
			nc++
			okAll := true
			what := ""
			for _, bd := range mc.Bindings {
				if cell, ok := bd.(*ssa.Alloc); ok {
					x.captureReader, _ = mc.Fn.(*ssa.Function)
					if w := x.writtenAfter(fn, b, idx, cell); w != "" {
						okAll = false
						what = cell.Comment + " written at " + w
					}
					x.captureReader = nil
				}
			}
			note := "variables captured by the stored callback are not written afterwards"
			if !okAll {
				note = "stored callback captures a variable that changes later: " + what
			}
			x.obligeStatic(newState(), fmt.Sprintf("capture.%s.callback#%d", x.fnShort(fn), nc), "goshare", okAll, mc.Pos(), note)
		}
	}
	// A-SLICE side condition: slices are values in the model (an append never
	// writes through another slice). That is only true when no two long-lived
	// slices share spare capacity: a slice made here with room to grow
	// (make with a capacity that is not the constant 0, or a re-slice) must
	// not be stored into more than one field / map row / element.
	ns := 0
	for _, b := range fn.Blocks {
		for _, ins := range b.Instrs {
			var v ssa.Value
			switch m := ins.(type) {
			case *ssa.MakeSlice:
				if c, ok := m.Cap.(*ssa.Const); ok && c.Value != nil && c.Int64() == 0 {
					continue
				}
				v = m
			case *ssa.Slice:
				switch xt := m.X.Type().Underlying().(type) {
				case *types.Slice:
				case *types.Pointer:
					// make with constant length and capacity is compiled to
					// `new [cap]T` + `slice [:len]`
					at, isArr := xt.Elem().Underlying().(*types.Array)
					if !isArr || at.Len() == 0 {
						continue
					}
				default:
					continue
				}
				if _, isSlice := m.Type().Underlying().(*types.Slice); !isSlice {
					continue
				}
				v = m
			default:
				continue
			}
			stores := 0
			for _, r := range *v.Referrers() {
				switch c := r.(type) {
				case *ssa.Store:
					if c.Val == v {
						switch c.Addr.(type) {
						case *ssa.FieldAddr, *ssa.IndexAddr:
							stores++
						}
					}
				case *ssa.MapUpdate:
					if c.Value == v {
						stores++
					}
				}
			}
			if stores == 0 {
				continue
			}
			ns++
			note := "a slice with room to grow is stored in one place only"
			if stores > 1 {
				note = fmt.Sprintf("one slice with spare capacity is stored in %d places: appends through one of them overwrite what the others hold", stores)
			}
			x.obligeStatic(newState(), fmt.Sprintf("alias.%s.slice#%d", x.fnShort(fn), ns), "goshare", stores <= 1, ins.Pos(), note)
		}
	}
	n := 0
	for _, b := range fn.Blocks {
		for idx, ins := range b.Instrs {
			g, ok := ins.(*ssa.Go)
			if !ok {
				continue
			}
			mc, ok := g.Call.Value.(*ssa.MakeClosure)
			if !ok {
				continue
			}
			n++
			okAll := true
			what := ""
			for _, bd := range mc.Bindings {
				cell, ok := bd.(*ssa.Alloc)
				if !ok {
					continue
				}
				if w := x.writtenAfter(fn, b, idx, cell); w != "" {
					okAll = false
					what = w
				}
			}
			note := "variables captured by the goroutine are not written afterwards"
			if !okAll {
				note = "captured variable written after the go statement: " + what
			}
			x.obligeStatic(newState(), fmt.Sprintf("goshare.%s.go#%d", x.fnShort(fn), n), "goshare", okAll, g.Pos(), note)
		}
	}
}

// writtenAfter: is cell (or the object a load of cell points to) stored to at a
// point reachable from (b, idx) without re-executing cell's allocation?
func (x *Run) writtenAfter(fn *ssa.Function, b *ssa.BasicBlock, idx int, cell *ssa.Alloc) string {
	// writes to the object the variable points to count only when that object is
	// local to this function (allocated here), not for pointers to long-lived
	// shared objects such as the receiver
	localObj := true
	nst := 0
	for _, r := range *cell.Referrers() {
		if st, ok := r.(*ssa.Store); ok && st.Addr == ssa.Value(cell) {
			nst++
			if _, isAlloc := st.Val.(*ssa.Alloc); !isAlloc {
				localObj = false
			}
		}
	}
	if nst == 0 {
		localObj = false
	}
	isWrite := func(ins ssa.Instruction) bool {
		st, ok := ins.(*ssa.Store)
		if !ok {
			return false
		}
		a := st.Addr
		depth := 0
		for {
			switch v := a.(type) {
			case *ssa.FieldAddr:
				// a later store to a field of the captured object matters only if the
				// callback (or what it calls) reads that field
				if depth == 0 && x.captureReader != nil {
					if pt, ok := v.X.Type().Underlying().(*types.Pointer); ok && !fieldReadBy(x.captureReader, pt.Elem(), v.Field, 0, map[*ssa.Function]bool{}) {
						return false
					}
				}
				a = v.X
				depth++
				continue
			case *ssa.IndexAddr:
				a = v.X
				depth++
				continue
			case *ssa.UnOp:
				if v.X == ssa.Value(cell) && localObj {
					return true
				}
			case *ssa.Alloc:
				if v == cell {
					return true
				}
			}
			return false
		}
	}
	type pos struct {
		b *ssa.BasicBlock
		i int
	}
	seen := map[*ssa.BasicBlock]bool{}
	var scan func(bb *ssa.BasicBlock, from int) string
	scan = func(bb *ssa.BasicBlock, from int) string {
		for i := from; i < len(bb.Instrs); i++ {
			ins := bb.Instrs[i]
			if ins == ssa.Instruction(cell) {
				return "" // a new variable from here on
			}
			if isWrite(ins) {
				return x.posStr(ins.Pos())
			}
		}
		for _, s := range bb.Succs {
			if seen[s] {
				continue
			}
			seen[s] = true
			if w := scan(s, 0); w != "" {
				return w
			}
		}
		return ""
	}
	return scan(b, idx+1)
}

// fieldReadBy: fn, its function literals or its static callees inside frp load
// field idx of struct type st.
func fieldReadBy(fn *ssa.Function, st types.Type, idx int, depth int, seen map[*ssa.Function]bool) bool {
	if fn == nil || seen[fn] || depth > 4 {
		return false
	}
	seen[fn] = true
	for _, b := range fn.Blocks {
		for _, ins := range b.Instrs {
			switch v := ins.(type) {
			case *ssa.FieldAddr:
				if pt, ok := v.X.Type().Underlying().(*types.Pointer); ok && types.Identical(pt.Elem(), st) && v.Field == idx && v.Referrers() != nil {
					for _, r := range *v.Referrers() {
						if u, ok := r.(*ssa.UnOp); ok && u.X == ssa.Value(v) {
							return true
						}
						if _, isStore := r.(*ssa.Store); !isStore {
							if _, isDbg := r.(*ssa.DebugRef); !isDbg {
								return true // address escapes
							}
						}
					}
				}
			case *ssa.Field:
				if types.Identical(v.X.Type(), st) && v.Field == idx {
					return true
				}
			case ssa.CallInstruction:
				if callee := v.Common().StaticCallee(); callee != nil && strings.HasPrefix(pkgPathOf(callee), frpPrefix) {
					if fieldReadBy(callee, st, idx, depth+1, seen) {
						return true
					}
				}
			}
		}
	}
	for _, an := range fn.AnonFuncs {
		if fieldReadBy(an, st, idx, depth+1, seen) {
			return true
		}
	}
	return false
}
