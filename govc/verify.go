package main

import (
	"fmt"
	"go/types"
	"strings"

	"golang.org/x/tools/go/ssa"
)

func typesNewPointer(t *ssa.Type) types.Type { return types.NewPointer(t.Type()) }

func (x *Run) paramVals(st *State, fn *ssa.Function) []Val {
	var args []Val
	for _, p := range fn.Params {
		v := x.freshVal(st, "p_"+p.Name(), p.Type())
		if _, ok := types.Unalias(p.Type()).Underlying().(*types.Pointer); ok {
			st.assume(fmt.Sprintf("(> %s 0)", v.T))
		} else if isRefType(p.Type()) {
			st.assume(fmt.Sprintf("(>= %s 0)", v.T))
		}
		args = append(args, v)
	}
	return args
}

func (x *Run) verifyContract(con *Contract) []*State {
	var finals []*State
	x.curCon = con
	run := func(args []Val, st *State) {
		fr := &Frame{fn: con.Fn, env: map[ssa.Value]Val{}, names: map[string]Val{}, mode: ModeContractVerify, cut: map[*ssa.BasicBlock]bool{}, unroll: map[*ssa.BasicBlock]int{}, con: con}
		outs := x.runFrame(fr, args, nil, st)
		for _, o := range outs {
			if !o.panic {
				finals = append(finals, o.st)
			}
		}
	}
	if len(con.Impls) == 0 {
		st := newState()
		args := x.paramVals(st, con.Fn)
		run(args, st)
		return finals
	}
	base := x.unit
	for _, impl := range con.Impls {
		ty := x.lookupType(expandName(impl))
		if ty == nil {
			x.unsupported("impl type not found: "+impl, con.Fn.Pos())
			continue
		}
		x.unit = base + "[" + shortTypeName(ty) + "]"
		st := newState()
		args := x.paramVals(st, con.Fn)
		inner := x.freshVal(st, "recv", ty)
		if _, ok := ty.Underlying().(*types.Pointer); ok {
			st.assume(fmt.Sprintf("(> %s 0)", inner.T))
		}
		args[0] = x.box(st, inner, con.Fn.Params[0].Type())
		run(args, st)
	}
	x.unit = base
	return finals
}

func (x *Run) lookupType(name string) types.Type {
	ptr := strings.HasPrefix(name, "*")
	name = strings.TrimPrefix(name, "*")
	i := strings.LastIndex(name, ".")
	if i < 0 {
		return nil
	}
	pkgPath, tn := name[:i], name[i+1:]
	for _, p := range x.prog.AllPackages() {
		if p.Pkg.Path() == pkgPath {
			obj := p.Pkg.Scope().Lookup(tn)
			if obj == nil {
				return nil
			}
			if ptr {
				return types.NewPointer(obj.Type())
			}
			return obj.Type()
		}
	}
	return nil
}

func (x *Run) verifySweep(sw *Sweep) []*State {
	st := newState()
	args := x.paramVals(st, sw.Target)
	fr := &Frame{fn: sw.Target, env: map[ssa.Value]Val{}, names: map[string]Val{}, mode: ModeNormal, cut: map[*ssa.BasicBlock]bool{}, unroll: map[*ssa.BasicBlock]int{}, selfRun: true}
	var bindings []Val
	for _, fv := range sw.Target.FreeVars {
		// closures swept directly: captured variables are arbitrary cells
		el := fv.Type().Underlying().(*types.Pointer).Elem()
		if isStruct(el) {
			ref := x.freshVal(st, "fv_"+fv.Name(), fv.Type())
			st.assume(fmt.Sprintf("(> %s 0)", ref.T))
			bindings = append(bindings, ref)
		} else {
			c := x.newCell(fv.Name(), el)
			st.cells[c] = x.freshVal(st, "fv_"+fv.Name(), el)
			a := &Addr{Kind: ACell, Cell: c, Ty: el}
			bindings = append(bindings, Val{T: x.ptrTerm(a), S: SInt, Ty: fv.Type(), Addr: a})
		}
	}
	outs := x.runFrame(fr, args, bindings, st)
	var finals []*State
	for _, o := range outs {
		if !o.panic {
			finals = append(finals, o.st)
		}
	}
	return finals
}
