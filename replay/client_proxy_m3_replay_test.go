// Replay for C19 obligations on the client proxy wrapper / manager (adapted from an independently written demonstration test).
package proxy

import (
	"context"
	"sync"
	"testing"
	"time"

	"github.com/fatedier/frp/client/event"
	v1 "github.com/fatedier/frp/pkg/config/v1"
)

type demoM3Recorder struct {
	mu     sync.Mutex
	starts int
	closes int
}

func (r *demoM3Recorder) handle(payload any) error {
	r.mu.Lock()
	defer r.mu.Unlock()
	switch payload.(type) {
	case *event.StartProxyPayload:
		r.starts++
	case *event.CloseProxyPayload:
		r.closes++
	}
	return nil
}

func (r *demoM3Recorder) counts() (int, int) {
	r.mu.Lock()
	defer r.mu.Unlock()
	return r.starts, r.closes
}

func demoM3WaitPhase(t *testing.T, pw *Wrapper, phase string) {
	t.Helper()
	deadline := time.Now().Add(5 * time.Second)
	for pw.GetStatus().Phase != phase {
		if time.Now().After(deadline) {
			t.Fatalf("phase %q not reached, still %q", phase, pw.GetStatus().Phase)
		}
		time.Sleep(5 * time.Millisecond)
	}
}

// The backend becomes healthy, the registration is sent, and the backend
// fails again while the server's reply is still outstanding. The server will
// register the proxy, so the client has to withdraw it with a CloseProxy.
func TestDemoM3HealthFailsWhileWaitingForReply(t *testing.T) {
	oldI, oldW, oldE := statusCheckInterval, waitResponseTimeout, startErrTimeout
	statusCheckInterval, waitResponseTimeout, startErrTimeout = 20*time.Millisecond, time.Hour, time.Hour
	defer func() { statusCheckInterval, waitResponseTimeout, startErrTimeout = oldI, oldW, oldE }()

	cfg := &v1.TCPProxyConfig{
		ProxyBaseConfig: v1.ProxyBaseConfig{
			Name: "hc",
			Type: "tcp",
			ProxyBackend: v1.ProxyBackend{
				LocalIP:   "127.0.0.1",
				LocalPort: 1,
			},
			HealthCheck: v1.HealthCheckConfig{Type: "tcp", MaxFailed: 1, IntervalSeconds: 1, TimeoutSeconds: 1},
		},
		RemotePort: 6000,
	}
	rec := &demoM3Recorder{}
	pw := NewWrapper(context.Background(), cfg, &v1.ClientCommonConfig{}, rec.handle, nil, nil)
	if pw.monitor == nil {
		t.Fatalf("expected a health monitor")
	}
	// Drive the health flag by hand instead of starting the real monitor.
	go pw.checkWorker()
	defer pw.Stop()

	// not registered before the first successful probe
	time.Sleep(700 * time.Millisecond)
	if s, _ := rec.counts(); s != 0 {
		t.Fatalf("registered before first successful probe")
	}

	pw.statusNormalCallback()
	demoM3WaitPhase(t, pw, ProxyPhaseWaitStart)
	if s, c := rec.counts(); s != 1 || c != 0 {
		t.Fatalf("after first success: starts=%d closes=%d, want 1/0", s, c)
	}

	// backend fails while the NewProxyResp is still outstanding
	pw.statusFailedCallback()
	demoM3WaitPhase(t, pw, ProxyPhaseCheckFailed)
	if _, c := rec.counts(); c != 1 {
		t.Fatalf("health failed in phase %q: CloseProxy sent %d times, want 1 (server will keep the unhealthy proxy registered)", ProxyPhaseWaitStart, c)
	}

	// the late reply must be ignored
	if err := pw.SetRunningStatus(":6000", ""); err == nil {
		t.Fatalf("late NewProxyResp accepted in phase check failed")
	}
	if p := pw.GetStatus().Phase; p != ProxyPhaseCheckFailed {
		t.Fatalf("phase %q after late reply, want %q", p, ProxyPhaseCheckFailed)
	}
}
