// Replay for C19 obligations on the client proxy wrapper / manager (adapted from an independently written demonstration test).
package proxy

import (
	"context"
	"io"
	"net"
	"testing"
	"time"

	v1 "github.com/fatedier/frp/pkg/config/v1"
	"github.com/fatedier/frp/pkg/msg"
)

type demoM4Proxy struct {
	got chan net.Conn
}

func (p *demoM4Proxy) Run() error { return nil }
func (p *demoM4Proxy) InWorkConn(c net.Conn, _ *msg.StartWorkConn) {
	p.got <- c
}
func (p *demoM4Proxy) SetInWorkConnCallback(func(*v1.ProxyBaseConfig, net.Conn, *msg.StartWorkConn) bool) {
}
func (p *demoM4Proxy) Close() {}

func demoM4WaitPhase(t *testing.T, pw *Wrapper, phase string) {
	t.Helper()
	deadline := time.Now().Add(5 * time.Second)
	for pw.GetStatus().Phase != phase {
		if time.Now().After(deadline) {
			t.Fatalf("phase %q not reached, still %q", phase, pw.GetStatus().Phase)
		}
		time.Sleep(5 * time.Millisecond)
	}
}

// offer hands a work connection to the wrapper and reports whether the
// underlying proxy received it (true) or the wrapper closed it (false).
func demoM4Offer(t *testing.T, pw *Wrapper, fake *demoM4Proxy) bool {
	t.Helper()
	local, remote := net.Pipe()
	defer remote.Close()
	pw.InWorkConn(local, &msg.StartWorkConn{ProxyName: pw.Name})
	readErr := make(chan error, 1)
	go func() {
		_, err := remote.Read(make([]byte, 1))
		readErr <- err
	}()
	select {
	case c := <-fake.got:
		c.Close()
		<-readErr
		return true
	case err := <-readErr:
		if err != io.EOF {
			t.Fatalf("unexpected read error on refused work connection: %v", err)
		}
		return false
	case <-time.After(3 * time.Second):
		t.Fatalf("work connection neither closed nor handed to the proxy")
	}
	return false
}

func TestDemoM4WorkConnOnlyWhileRunning(t *testing.T) {
	oldI, oldW, oldE := statusCheckInterval, waitResponseTimeout, startErrTimeout
	statusCheckInterval, waitResponseTimeout, startErrTimeout = 20*time.Millisecond, time.Hour, 300*time.Millisecond
	defer func() { statusCheckInterval, waitResponseTimeout, startErrTimeout = oldI, oldW, oldE }()

	cfg := &v1.TCPProxyConfig{
		ProxyBaseConfig: v1.ProxyBaseConfig{
			Name:         "p",
			Type:         "tcp",
			ProxyBackend: v1.ProxyBackend{LocalIP: "127.0.0.1", LocalPort: 1},
		},
		RemotePort: 6000,
	}
	pw := NewWrapper(context.Background(), cfg, &v1.ClientCommonConfig{}, func(any) error { return nil }, nil, nil)
	fake := &demoM4Proxy{got: make(chan net.Conn, 4)}
	pw.pxy = fake

	// phase new
	if demoM4Offer(t, pw, fake) {
		t.Fatalf("work connection accepted in phase %q", ProxyPhaseNew)
	}

	go pw.checkWorker()
	demoM4WaitPhase(t, pw, ProxyPhaseWaitStart)

	// server rejects the first registration; the wrapper retries after the back-off
	if err := pw.SetRunningStatus("", "port already used"); err == nil {
		t.Fatalf("expected start error")
	}
	if demoM4Offer(t, pw, fake) {
		t.Fatalf("work connection accepted in phase %q", ProxyPhaseStartErr)
	}
	demoM4WaitPhase(t, pw, ProxyPhaseWaitStart)

	// registration re-sent, reply outstanding: the proxy is not running, a
	// (stale) work connection must be refused
	if demoM4Offer(t, pw, fake) {
		t.Fatalf("work connection accepted in phase %q (proxy not running)", ProxyPhaseWaitStart)
	}

	if err := pw.SetRunningStatus(":6000", ""); err != nil {
		t.Fatalf("SetRunningStatus: %v", err)
	}
	if !demoM4Offer(t, pw, fake) {
		t.Fatalf("work connection refused in phase %q", ProxyPhaseRunning)
	}

	pw.Stop()
	if demoM4Offer(t, pw, fake) {
		t.Fatalf("work connection accepted after Stop")
	}
}
