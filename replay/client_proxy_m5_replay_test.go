// Replay for C19 obligations on the client proxy wrapper / manager (adapted from an independently written demonstration test).
package proxy

import (
	"context"
	"fmt"
	"sort"
	"sync"
	"testing"
	"time"

	v1 "github.com/fatedier/frp/pkg/config/v1"
	"github.com/fatedier/frp/pkg/msg"
)

type demoM5Transporter struct {
	mu     sync.Mutex
	starts []string
	closes []string
}

func (tr *demoM5Transporter) Send(m msg.Message) error {
	tr.mu.Lock()
	defer tr.mu.Unlock()
	switch v := m.(type) {
	case *msg.NewProxy:
		tr.starts = append(tr.starts, v.ProxyName)
	case *msg.CloseProxy:
		tr.closes = append(tr.closes, v.ProxyName)
	}
	return nil
}

func (tr *demoM5Transporter) Do(context.Context, msg.Message, string, string) (msg.Message, error) {
	return nil, fmt.Errorf("not implemented")
}
func (tr *demoM5Transporter) Dispatch(msg.Message, string) bool                 { return false }
func (tr *demoM5Transporter) DispatchWithType(msg.Message, string, string) bool { return false }

func (tr *demoM5Transporter) takeCloses() []string {
	tr.mu.Lock()
	defer tr.mu.Unlock()
	out := tr.closes
	tr.closes = nil
	sort.Strings(out)
	return out
}

func (tr *demoM5Transporter) startCount(name string) int {
	tr.mu.Lock()
	defer tr.mu.Unlock()
	n := 0
	for _, s := range tr.starts {
		if s == name {
			n++
		}
	}
	return n
}

// every reload parses the configuration afresh: new, deeply equal objects
func demoM5Cfg(i int, remotePort int) v1.ProxyConfigurer {
	return &v1.TCPProxyConfig{
		ProxyBaseConfig: v1.ProxyBaseConfig{
			Name:         fmt.Sprintf("p%02d", i),
			Type:         "tcp",
			ProxyBackend: v1.ProxyBackend{LocalIP: "127.0.0.1", LocalPort: 1},
		},
		RemotePort: remotePort,
	}
}

// Reloads in which exactly one entry disappears or changes must leave all
// other (unchanged) entries alone: same wrapper, no CloseProxy, no second
// NewProxy.
func TestDemoM5PartialReloadKeepsUnchangedProxies(t *testing.T) {
	oldI, oldW, oldE := statusCheckInterval, waitResponseTimeout, startErrTimeout
	statusCheckInterval, waitResponseTimeout, startErrTimeout = 20*time.Millisecond, time.Hour, time.Hour
	defer func() { statusCheckInterval, waitResponseTimeout, startErrTimeout = oldI, oldW, oldE }()

	const n = 24
	tr := &demoM5Transporter{}
	pm := NewManager(context.Background(), &v1.ClientCommonConfig{}, tr, nil)
	defer pm.Close()

	ports := map[int]int{}
	for i := 0; i < n; i++ {
		ports[i] = 6000 + i
	}
	build := func() []v1.ProxyConfigurer {
		idx := make([]int, 0, len(ports))
		for i := range ports {
			idx = append(idx, i)
		}
		sort.Ints(idx)
		out := make([]v1.ProxyConfigurer, 0, len(idx))
		for _, i := range idx {
			out = append(out, demoM5Cfg(i, ports[i]))
		}
		return out
	}
	snapshot := func() map[string]*Wrapper {
		pm.mu.RLock()
		defer pm.mu.RUnlock()
		out := map[string]*Wrapper{}
		for k, v := range pm.proxies {
			out[k] = v
		}
		return out
	}

	pm.UpdateAll(build())
	// let every proxy send its registration and bring it to running
	for i := 0; i < n; i++ {
		name := fmt.Sprintf("p%02d", i)
		deadline := time.Now().Add(5 * time.Second)
		for tr.startCount(name) == 0 {
			if time.Now().After(deadline) {
				t.Fatalf("%s never registered", name)
			}
			time.Sleep(5 * time.Millisecond)
		}
		if err := pm.StartProxy(name, fmt.Sprintf(":%d", 6000+i), ""); err != nil {
			t.Fatalf("StartProxy %s: %v", name, err)
		}
	}
	if c := tr.takeCloses(); len(c) != 0 {
		t.Fatalf("unexpected CloseProxy during start: %v", c)
	}

	check := func(step string, before map[string]*Wrapper, touched string, removed bool) {
		t.Helper()
		after := snapshot()
		closes := tr.takeCloses()
		if len(closes) != 1 || closes[0] != touched {
			t.Fatalf("%s: CloseProxy sent for %v, want only [%s]", step, closes, touched)
		}
		for name, w := range before {
			if name == touched {
				continue
			}
			if after[name] != w {
				t.Fatalf("%s: unchanged proxy %s was replaced", step, name)
			}
			if ph := w.GetStatus().Phase; ph != ProxyPhaseRunning {
				t.Fatalf("%s: unchanged proxy %s left phase running: %q", step, name, ph)
			}
		}
		if _, ok := after[touched]; ok == removed {
			t.Fatalf("%s: presence of %s after reload = %v", step, touched, ok)
		}
	}

	// identical reload: nothing happens
	before := snapshot()
	pm.UpdateAll(build())
	if c := tr.takeCloses(); len(c) != 0 {
		t.Fatalf("identical reload sent CloseProxy for %v", c)
	}

	// four reloads, each removing a single entry
	for _, i := range []int{3, 11, 17, 22} {
		before = snapshot()
		delete(ports, i)
		pm.UpdateAll(build())
		check(fmt.Sprintf("remove p%02d", i), before, fmt.Sprintf("p%02d", i), true)
	}
	// two reloads, each changing a single entry
	for _, i := range []int{5, 19} {
		before = snapshot()
		ports[i] += 1000
		pm.UpdateAll(build())
		name := fmt.Sprintf("p%02d", i)
		check("change "+name, before, name, false)
		// the changed entry is registered again with its new settings
		deadline := time.Now().Add(5 * time.Second)
		for tr.startCount(name) < 2 {
			if time.Now().After(deadline) {
				t.Fatalf("changed proxy %s was not registered again", name)
			}
			time.Sleep(5 * time.Millisecond)
		}
		if err := pm.StartProxy(name, fmt.Sprintf(":%d", ports[i]), ""); err != nil {
			t.Fatalf("StartProxy %s: %v", name, err)
		}
	}

	// no unchanged proxy has ever been registered twice
	time.Sleep(100 * time.Millisecond)
	for i := range ports {
		name := fmt.Sprintf("p%02d", i)
		want := 1
		if i == 5 || i == 19 {
			want = 2
		}
		if got := tr.startCount(name); got != want {
			t.Fatalf("%s registered %d times, want %d", name, got, want)
		}
	}
}
