package client

import (
	"context"
	"testing"
	"time"
)

// Replay for C16 lock obligations on Service.ctl: Run starts
// keepControllerWorking in a goroutine and then, when the service context is
// cancelled, stop() sets ctl to nil. When stop() wins that race the goroutine
// must not dereference the nil control.
func TestVerifReplayKeepControllerAfterStop(t *testing.T) {
	svr := &Service{}
	svr.ctx, svr.cancel = context.WithCancelCause(context.Background())
	svr.cancel(nil) // the service is shutting down; stop() already ran: ctl == nil
	done := make(chan any, 1)
	go func() {
		defer func() { done <- recover() }()
		svr.keepControllerWorking()
	}()
	select {
	case r := <-done:
		if r != nil {
			t.Fatalf("keepControllerWorking panicked after stop() cleared the control: %v", r)
		}
	case <-time.After(5 * time.Second):
		t.Fatal("keepControllerWorking still running 5 s after the service was stopped")
	}
}
