package net

import (
	"io"
	"net"
	"sync/atomic"
	"testing"
	"time"
)

// Replay for post.verif_CloseNotifyConn_Close.*: closing the wrapper closes the
// wrapped connection (its peer sees the end of the stream), exactly once, and
// runs the notification once; a second Close does nothing.
func TestVerifReplayCloseNotifyConn(t *testing.T) {
	a, b := net.Pipe()
	defer b.Close()
	var notified int32
	c := WrapCloseNotifyConn(a, func() { atomic.AddInt32(&notified, 1) })
	if err := c.Close(); err != nil {
		t.Fatalf("first Close: %v", err)
	}
	_ = c.Close()
	if n := atomic.LoadInt32(&notified); n != 1 {
		t.Fatalf("notification ran %d times, want 1", n)
	}
	_ = b.SetReadDeadline(time.Now().Add(2 * time.Second))
	_, err := b.Read(make([]byte, 1))
	if err != io.EOF {
		t.Fatalf("peer of the wrapped connection does not see it closed after the wrapper's Close: Read returned %v, want EOF", err)
	}
}
