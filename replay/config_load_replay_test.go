package config

import (
	"testing"

	v1 "github.com/fatedier/frp/pkg/config/v1"
	"github.com/fatedier/frp/pkg/config/v1/validation"
	"github.com/fatedier/frp/pkg/msg"
)

// Replay for C18 reconstruction obligations: what NewProxyConfigurerFromMsg
// returns is typed by the message (tcp by default), named by it, completed and
// acceptable to the server-side validation.
func TestVerifReplayReconstruction(t *testing.T) {
	s := &v1.ServerConfig{SubDomainHost: "example.com", VhostHTTPPort: 80, VhostHTTPSPort: 443, TCPMuxHTTPConnectPort: 1337}
	for _, typ := range []string{"", "tcp", "udp", "http", "https", "tcpmux", "stcp", "xtcp", "sudp"} {
		m := &msg.NewProxy{ProxyName: "p", ProxyType: typ, CustomDomains: []string{"a.other.org"}, Multiplexer: "httpconnect"}
		c, err := NewProxyConfigurerFromMsg(m, s)
		if (err == nil) != (c != nil) {
			t.Fatalf("type %q: configuration %v with error %v", typ, c, err)
		}
		if err != nil {
			t.Fatalf("type %q: %v", typ, err)
		}
		b := c.GetBaseConfig()
		want := typ
		if want == "" {
			want = "tcp"
		}
		if b.Name != "p" || b.Type != want {
			t.Fatalf("type %q: reconstructed name %q type %q", typ, b.Name, b.Type)
		}
		if b.Transport.BandwidthLimitMode == "" {
			t.Fatalf("type %q: configuration not completed (bandwidth limit mode empty)", typ)
		}
		if err := validation.ValidateProxyConfigurerForServer(c, s); err != nil {
			t.Fatalf("type %q: returned configuration does not validate: %v", typ, err)
		}
	}
	for _, typ := range []string{"http", "https", "tcpmux"} {
		m := &msg.NewProxy{ProxyName: "p", ProxyType: typ, CustomDomains: []string{"A.EXAMPLE.COM"}, Multiplexer: "httpconnect"}
		if c, err := NewProxyConfigurerFromMsg(m, s); err == nil {
			t.Fatalf("type %q: custom domain inside the subdomain space accepted: %+v", typ, c)
		}
	}
}
