package v1

import (
	"reflect"
	"testing"

	"github.com/fatedier/frp/pkg/config/types"
	"github.com/fatedier/frp/pkg/msg"
)

// Replay for C18 round-trip obligations: populated configurations of all eight
// proxy types, both bandwidth modes, with and without a bandwidth limit, are
// marshalled by the real client code, reconstructed by the real server code and
// compared in every field the server acts on.
func TestVerifReplayRoundTrip(t *testing.T) {
	for _, mode := range []string{"client", "server"} {
		for _, bw := range []string{"", "3MB", "512KB"} {
			base := func(typ string) ProxyBaseConfig {
				b := ProxyBaseConfig{Name: "n-" + typ, Type: typ}
				b.Transport.UseEncryption = true
				b.Transport.UseCompression = true
				b.Transport.BandwidthLimitMode = mode
				if bw != "" {
					q, err := types.NewBandwidthQuantity(bw)
					if err != nil {
						t.Fatal(err)
					}
					b.Transport.BandwidthLimit = q
				}
				b.LoadBalancer.Group = "g"
				b.LoadBalancer.GroupKey = "gk"
				b.Metadatas = map[string]string{"a": "b"}
				b.Annotations = map[string]string{"x/y": "z"}
				return b
			}
			dc := DomainConfig{CustomDomains: []string{"a.example.org", "B.example.org"}, SubDomain: "sub"}
			cfgs := []ProxyConfigurer{
				&TCPProxyConfig{ProxyBaseConfig: base("tcp"), RemotePort: 6001},
				&UDPProxyConfig{ProxyBaseConfig: base("udp"), RemotePort: 6002},
				&HTTPProxyConfig{ProxyBaseConfig: base("http"), DomainConfig: dc, Locations: []string{"/l1", "/l2"}, HTTPUser: "hu", HTTPPassword: "hp", HostHeaderRewrite: "hh", RouteByHTTPUser: "ru",
					RequestHeaders: HeaderOperations{Set: map[string]string{"h": "v"}}, ResponseHeaders: HeaderOperations{Set: map[string]string{"r": "w"}}},
				&HTTPSProxyConfig{ProxyBaseConfig: base("https"), DomainConfig: dc},
				&TCPMuxProxyConfig{ProxyBaseConfig: base("tcpmux"), DomainConfig: dc, HTTPUser: "mu", HTTPPassword: "mp", RouteByHTTPUser: "mr", Multiplexer: "httpconnect"},
				&STCPProxyConfig{ProxyBaseConfig: base("stcp"), Secretkey: "sk1", AllowUsers: []string{"u1", "u2"}},
				&XTCPProxyConfig{ProxyBaseConfig: base("xtcp"), Secretkey: "sk2", AllowUsers: []string{"u3"}},
				&SUDPProxyConfig{ProxyBaseConfig: base("sudp"), Secretkey: "sk3", AllowUsers: []string{"*"}},
			}
			for _, c := range cfgs {
				var m msg.NewProxy
				c.MarshalToMsg(&m)
				d := NewProxyConfigurerByType(ProxyType(m.ProxyType))
				if d == nil {
					t.Fatalf("no configuration object for type %q", m.ProxyType)
				}
				if reflect.TypeOf(d) != reflect.TypeOf(c) {
					t.Fatalf("type %q reconstructed as %T, client had %T", m.ProxyType, d, c)
				}
				d.UnmarshalFromMsg(&m)
				d.Complete("")
				// fields the server does not receive or act on are cleared on the client copy
				cb, db := c.GetBaseConfig(), d.GetBaseConfig()
				cc := *cb
				cc.LocalIP, cc.LocalPort, cc.Plugin, cc.HealthCheck = db.LocalIP, db.LocalPort, db.Plugin, db.HealthCheck
				cc.Transport.ProxyProtocolVersion = db.Transport.ProxyProtocolVersion
				if !reflect.DeepEqual(cc, *db) {
					t.Fatalf("mode=%s bw=%q type %s: base differs\nclient %+v\nserver %+v", mode, bw, m.ProxyType, cc, *db)
				}
				*cb = *db
				if !reflect.DeepEqual(c, d) {
					t.Fatalf("mode=%s bw=%q type %s: configuration differs\nclient %+v\nserver %+v", mode, bw, m.ProxyType, c, d)
				}
			}
		}
	}
}
