package group

import (
	"net"
	"testing"

	"github.com/fatedier/frp/pkg/util/vhost"
)

// inv.(*HTTPGroup).Register: a join that looked the group up before the last
// leave registers the route on a group nobody can find any more: the route is
// never removed.
func TestVerifReplayStaleHTTPGroup(t *testing.T) {
	router := vhost.NewRouters()
	ctl := NewHTTPGroupController(router)
	rc := vhost.RouteConfig{Domain: "a.example.com", Location: "/", CreateConnFn: func(string) (net.Conn, error) { return nil, nil }}
	if err := ctl.Register("p1", "g", "k", rc); err != nil {
		t.Fatal(err)
	}
	ctl.mu.Lock()
	g := ctl.groups["g"]
	ctl.mu.Unlock()
	ctl.UnRegister("p1", "g", rc) // last leave
	if err := g.Register("p2", "g", "k", rc); err != nil {
		// acceptable: dead group refuses; a retry through the controller must work
		if err := ctl.Register("p2", "g", "k", rc); err != nil {
			t.Fatalf("group cannot be created again after the last leave: %v", err)
		}
	}
	ctl.UnRegister("p2", "g", rc)
	if _, ok := router.Get("a.example.com", "/", ""); ok {
		t.Fatalf("route of the http group is still registered after every member left")
	}
}

// nopanic.(*HTTPGroup).chooseEndpoint.index: the round-robin counter is a
// uint64 converted to int before the modulo; past 2^63 the index is negative.
func TestVerifReplayHTTPGroupCounterWrap(t *testing.T) {
	defer func() {
		if r := recover(); r != nil {
			t.Fatalf("round-robin choice panicked: %v", r)
		}
	}()
	router := vhost.NewRouters()
	ctl := NewHTTPGroupController(router)
	rc := vhost.RouteConfig{Domain: "a.example.com", Location: "/", CreateConnFn: func(string) (net.Conn, error) { return nil, nil }}
	for _, n := range []string{"p1", "p2", "p3"} {
		if err := ctl.Register(n, "g", "k", rc); err != nil {
			t.Fatal(err)
		}
	}
	g := ctl.groups["g"]
	g.index = 1<<63 + 3
	if _, err := g.chooseEndpoint(); err != nil {
		t.Fatal(err)
	}
	if _, err := g.createConn("1.2.3.4:5"); err != nil {
		t.Fatal(err)
	}
}
