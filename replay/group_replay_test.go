package group

import (
	"net"
	"strconv"
	"testing"

	"github.com/fatedier/frp/pkg/config/types"
	"github.com/fatedier/frp/server/ports"
)

// post.verif_TCPGroup_Listen.first_listens_on_acquired_port
func TestVerifReplayGroupListensOnAcquiredPort(t *testing.T) {
	pm := ports.NewManager("tcp", "127.0.0.1", []types.PortsRange{{Start: 20000, End: 60000}})
	ctl := NewTCPGroupCtl(pm)
	l, realPort, err := ctl.Listen("p1", "g", "k", "127.0.0.1", 0)
	if err != nil {
		t.Skip(err)
	}
	defer l.Close()
	_, ps, _ := net.SplitHostPort(l.Addr().String())
	if ps != strconv.Itoa(realPort) {
		t.Fatalf("group reports port %d but listens on %s", realPort, ps)
	}
}

// post.verif_TCPGroup_Listen.first_error_releases_port
func TestVerifReplayGroupListenFailureReleasesPort(t *testing.T) {
	pm := ports.NewManager("tcp", "127.0.0.1", []types.PortsRange{{Start: 20000, End: 60000}})
	ctl := NewTCPGroupCtl(pm)
	// acquisition succeeds (probe on 127.0.0.1), the group's own listen fails (bad address)
	_, _, err := ctl.Listen("p1", "g", "k", "no.such.host.invalid", 23456)
	if err == nil {
		t.Skip("listen unexpectedly succeeded")
	}
	if _, err := pm.Acquire("p2", 23456); err != nil {
		t.Fatalf("port 23456 leaked by the failed group registration: %v", err)
	}
}
