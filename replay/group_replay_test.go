package group

import (
	"net"
	"strconv"
	"testing"

	"github.com/fatedier/frp/pkg/config/types"
	"github.com/fatedier/frp/server/ports"
)

// post.verif_TCPGroup_Listen.first_listens_on_acquired_port
func TestVerifReplayGroupListensOnAcquiredPort(t *testing.T) {
	pm := ports.NewManager("tcp", "127.0.0.1", []types.PortsRange{{Start: 20000, End: 60000}})
	ctl := NewTCPGroupCtl(pm)
	l, realPort, err := ctl.Listen("p1", "g", "k", "127.0.0.1", 0)
	if err != nil {
		t.Skip(err)
	}
	defer l.Close()
	_, ps, _ := net.SplitHostPort(l.Addr().String())
	if ps != strconv.Itoa(realPort) {
		t.Fatalf("group reports port %d but listens on %s", realPort, ps)
	}
}

// post.verif_TCPGroup_Listen.first_error_releases_port
func TestVerifReplayGroupListenFailureReleasesPort(t *testing.T) {
	pm := ports.NewManager("tcp", "127.0.0.1", []types.PortsRange{{Start: 20000, End: 60000}})
	ctl := NewTCPGroupCtl(pm)
	// acquisition succeeds (probe on 127.0.0.1), the group's own listen fails (bad address)
	_, _, err := ctl.Listen("p1", "g", "k", "no.such.host.invalid", 23456)
	if err == nil {
		t.Skip("listen unexpectedly succeeded")
	}
	if _, err := pm.Acquire("p2", 23456); err != nil {
		t.Fatalf("port 23456 leaked by the failed group registration: %v", err)
	}
}

// inv.(*TCPGroup).Listen / nopanic.(*TCPGroup).CloseListener.close-of-closed:
// a join that looked the group up before the last leave re-uses the dead group.
func TestVerifReplayStaleTCPGroup(t *testing.T) {
	defer func() {
		if r := recover(); r != nil {
			t.Fatalf("join/last-leave interleaving crashed the process: %v", r)
		}
	}()
	pm := ports.NewManager("tcp", "127.0.0.1", []types.PortsRange{{Start: 20000, End: 60000}})
	ctl := NewTCPGroupCtl(pm)
	l1, _, err := ctl.Listen("p1", "g", "k", "127.0.0.1", 0)
	if err != nil {
		t.Skip(err)
	}
	// second proxy: the controller has looked the group up ...
	ctl.mu.Lock()
	g := ctl.groups["g"]
	ctl.mu.Unlock()
	// ... when the last member leaves
	l1.Close()
	// ... and now joins the group object it holds
	l2, _, err := g.Listen("p2", "g", "k", "127.0.0.1", 0)
	if err != nil {
		// acceptable: the join is refused or retried on a fresh group
		l3, _, err := ctl.Listen("p2", "g", "k", "127.0.0.1", 0)
		if err != nil {
			t.Fatalf("group cannot be created again after the last leave: %v", err)
		}
		l3.Close()
		return
	}
	l2.Close() // double close of the accept channel on the unfixed tree
}
