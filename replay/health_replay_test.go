package health

import (
	"context"
	"net"
	"sync/atomic"
	"testing"
	"time"
)

// Replay for C19 "withdrawn after exactly the configured number of consecutive
// failed probes - never fewer, a success restarts the count": outcomes
// S F F S F with maxFailed=3 must not withdraw the proxy (the longest run of
// failures is 2).
func TestVerifReplayConsecutiveFailures(t *testing.T) {
	ln, err := net.Listen("tcp", "127.0.0.1:0")
	if err != nil {
		t.Fatal(err)
	}
	addr := ln.Addr().String()
	var accepted, failedCalls, normalCalls int32
	serve := func(l net.Listener) {
		for {
			c, err := l.Accept()
			if err != nil {
				return
			}
			atomic.AddInt32(&accepted, 1)
			c.Close()
		}
	}
	go serve(ln)
	m := &Monitor{
		checkType: "tcp", interval: 100 * time.Millisecond, timeout: 500 * time.Millisecond, maxFailedTimes: 3, addr: addr,
		statusNormalFn: func() { atomic.AddInt32(&normalCalls, 1) },
		statusFailedFn: func() { atomic.AddInt32(&failedCalls, 1) },
	}
	m.ctx, m.cancel = context.WithCancel(context.Background())
	defer m.Stop()
	wait := func(what string, cond func() bool) {
		for i := 0; i < 5000; i++ {
			if cond() {
				return
			}
			time.Sleep(time.Millisecond)
		}
		t.Fatalf("timeout waiting for %s", what)
	}
	go m.checkWorker()
	wait("first success", func() bool { return atomic.LoadInt32(&normalCalls) == 1 })
	ln.Close()
	f0 := atomic.LoadUint64(&m.failedTimes)
	wait("two failures", func() bool { return atomic.LoadUint64(&m.failedTimes) >= f0+2 })
	if atomic.LoadUint64(&m.failedTimes) != f0+2 {
		t.Skip("timing: more than two failures before the backend came back")
	}
	ln2, err := net.Listen("tcp", addr)
	if err != nil {
		t.Skipf("could not reopen the backend port: %v", err)
	}
	a0 := atomic.LoadInt32(&accepted)
	go serve(ln2)
	wait("success after two failures", func() bool { return atomic.LoadInt32(&accepted) > a0 })
	time.Sleep(20 * time.Millisecond) // let the iteration that saw the success finish
	if atomic.LoadInt32(&failedCalls) != 0 {
		t.Skip("timing: a third failure slipped in before the backend came back")
	}
	f1 := atomic.LoadUint64(&m.failedTimes)
	ln2.Close()
	wait("one more failure", func() bool { return atomic.LoadUint64(&m.failedTimes) != f1 })
	time.Sleep(30 * time.Millisecond)
	if n := atomic.LoadInt32(&failedCalls); n != 0 {
		t.Fatalf("probe outcomes S F F S F with maxFailed=3: proxy withdrawn after a single failure following a success (failed callback ran %d time(s), counter=%d)", n, atomic.LoadUint64(&m.failedTimes))
	}
}
