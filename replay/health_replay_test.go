package health

import (
	"context"
	"net"
	"net/http"
	"net/http/httptest"
	"sync/atomic"
	"testing"
	"time"
)

// Replay for C19 "withdrawn after exactly the configured number of consecutive
// failed probes - never fewer, a success restarts the count": outcomes
// S F F S F with maxFailed=3 must not withdraw the proxy (the longest run of
// failures is 2).
func TestVerifReplayConsecutiveFailures(t *testing.T) {
	ln, err := net.Listen("tcp", "127.0.0.1:0")
	if err != nil {
		t.Fatal(err)
	}
	addr := ln.Addr().String()
	var accepted, failedCalls, normalCalls int32
	serve := func(l net.Listener) {
		for {
			c, err := l.Accept()
			if err != nil {
				return
			}
			atomic.AddInt32(&accepted, 1)
			c.Close()
		}
	}
	go serve(ln)
	m := &Monitor{
		checkType: "tcp", interval: 100 * time.Millisecond, timeout: 500 * time.Millisecond, maxFailedTimes: 3, addr: addr,
		statusNormalFn: func() { atomic.AddInt32(&normalCalls, 1) },
		statusFailedFn: func() { atomic.AddInt32(&failedCalls, 1) },
	}
	m.ctx, m.cancel = context.WithCancel(context.Background())
	defer m.Stop()
	wait := func(what string, cond func() bool) {
		for i := 0; i < 5000; i++ {
			if cond() {
				return
			}
			time.Sleep(time.Millisecond)
		}
		t.Fatalf("timeout waiting for %s", what)
	}
	go m.checkWorker()
	wait("first success", func() bool { return atomic.LoadInt32(&normalCalls) == 1 })
	ln.Close()
	f0 := atomic.LoadUint64(&m.failedTimes)
	wait("two failures", func() bool { return atomic.LoadUint64(&m.failedTimes) >= f0+2 })
	if atomic.LoadUint64(&m.failedTimes) != f0+2 {
		t.Skip("timing: more than two failures before the backend came back")
	}
	ln2, err := net.Listen("tcp", addr)
	if err != nil {
		t.Skipf("could not reopen the backend port: %v", err)
	}
	a0 := atomic.LoadInt32(&accepted)
	go serve(ln2)
	wait("success after two failures", func() bool { return atomic.LoadInt32(&accepted) > a0 })
	time.Sleep(20 * time.Millisecond) // let the iteration that saw the success finish
	if atomic.LoadInt32(&failedCalls) != 0 {
		t.Skip("timing: a third failure slipped in before the backend came back")
	}
	f1 := atomic.LoadUint64(&m.failedTimes)
	ln2.Close()
	wait("one more failure", func() bool { return atomic.LoadUint64(&m.failedTimes) != f1 })
	time.Sleep(30 * time.Millisecond)
	if n := atomic.LoadInt32(&failedCalls); n != 0 {
		t.Fatalf("probe outcomes S F F S F with maxFailed=3: proxy withdrawn after a single failure following a success (failed callback ran %d time(s), counter=%d)", n, atomic.LoadUint64(&m.failedTimes))
	}
}

// A probe slower than its timeout counts as failed (adapted from an
// independently written demonstration test).
func newDemoM2Monitor(url string, normal func()) *Monitor {
	ctx, cancel := context.WithCancel(context.Background())
	return &Monitor{
		checkType:      "http",
		interval:       4 * time.Second, // much longer than the timeout
		timeout:        150 * time.Millisecond,
		maxFailedTimes: 1,
		url:            url,
		header:         make(http.Header),
		statusNormalFn: normal,
		statusFailedFn: func() {},
		ctx:            ctx,
		cancel:         cancel,
	}
}

// A backend that answers 200, but only after 600ms, is probed with a 150ms
// timeout. Every probe exceeds its timeout, so the proxy must never be
// reported healthy.
func TestDemoM2SlowProbeCountsAsFailed(t *testing.T) {
	slow := httptest.NewServer(http.HandlerFunc(func(w http.ResponseWriter, r *http.Request) {
		select {
		case <-time.After(600 * time.Millisecond):
		case <-r.Context().Done():
		}
		w.WriteHeader(200)
	}))
	defer slow.Close()
	fast := httptest.NewServer(http.HandlerFunc(func(w http.ResponseWriter, r *http.Request) {
		w.WriteHeader(200)
	}))
	defer fast.Close()

	// sanity: same settings against a fast backend do become healthy
	fastOK := make(chan struct{}, 1)
	mf := newDemoM2Monitor(fast.URL+"/", func() { fastOK <- struct{}{} })
	mf.Start()
	defer mf.Stop()
	select {
	case <-fastOK:
	case <-time.After(3 * time.Second):
		t.Fatalf("fast backend never reported healthy")
	}

	slowOK := make(chan struct{}, 1)
	ms := newDemoM2Monitor(slow.URL+"/", func() { slowOK <- struct{}{} })
	ms.Start()
	defer ms.Stop()
	select {
	case <-slowOK:
		t.Fatalf("probe that took 600ms with a 150ms timeout was counted as a success")
	case <-time.After(2500 * time.Millisecond):
	}
}
