package limit

import (
	"bytes"
	"io"
	"testing"
	"time"

	"golang.org/x/time/rate"
)

type verifChunkWriter struct {
	chunks [][]byte
}

func (c *verifChunkWriter) Write(p []byte) (int, error) {
	c.chunks = append(c.chunks, append([]byte(nil), p...))
	return len(p), nil
}

// Replay for C01 limiter obligations: the Writer hands on every byte, in
// order, in chunks of at most one burst, and both Writer and Reader pay one
// token per byte (so moving N bytes through a limiter of rate R and burst B
// takes at least (N-B)/R).
func TestVerifReplayLimiter(t *testing.T) {
	data := make([]byte, 250)
	for i := range data {
		data[i] = byte(i*13 + 7)
	}
	for _, burst := range []int{1, 3, 100, 249, 250, 251, 4096} {
		cw := &verifChunkWriter{}
		w := NewWriter(cw, rate.NewLimiter(rate.Limit(1e9), burst))
		n, err := w.Write(data)
		if err != nil || n != len(data) {
			t.Fatalf("burst %d: Write returned %d, %v for %d bytes", burst, n, err, len(data))
		}
		var got []byte
		for _, c := range cw.chunks {
			if len(c) > burst || len(c) == 0 {
				t.Fatalf("burst %d: chunk of %d bytes", burst, len(c))
			}
			got = append(got, c...)
		}
		if !bytes.Equal(got, data) {
			t.Fatalf("burst %d: bytes handed on differ from the bytes written (%d vs %d bytes)", burst, len(got), len(data))
		}
	}
	// token accounting, Writer: 250 bytes, 1000 B/s, burst 100 -> at least 150 ms
	start := time.Now()
	w := NewWriter(io.Discard, rate.NewLimiter(1000, 100))
	if n, err := w.Write(data); err != nil || n != 250 {
		t.Fatal(n, err)
	}
	if d := time.Since(start); d < 135*time.Millisecond {
		t.Fatalf("Writer moved 250 bytes through a 1000 B/s, burst 100 limiter in %v: some bytes were not paid for", d)
	}
	// token accounting and burst cap, Reader
	start = time.Now()
	r := NewReader(bytes.NewReader(data), rate.NewLimiter(1000, 100))
	buf := make([]byte, 1000)
	total := 0
	for {
		n, err := r.Read(buf)
		if n > 100 {
			t.Fatalf("Reader delivered %d bytes in one read with burst 100", n)
		}
		if !bytes.Equal(buf[:n], data[total:total+n]) {
			t.Fatalf("Reader altered the bytes at offset %d", total)
		}
		total += n
		if err != nil {
			break
		}
	}
	if total != 250 {
		t.Fatalf("Reader delivered %d of 250 bytes", total)
	}
	if d := time.Since(start); d < 135*time.Millisecond {
		t.Fatalf("Reader moved 250 bytes through a 1000 B/s, burst 100 limiter in %v: some bytes were not paid for", d)
	}
}
