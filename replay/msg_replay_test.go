package msg

import (
	"bytes"
	"encoding/binary"
	"net"
	"reflect"
	"strings"
	"testing"
	"time"
)

// Replay for C17: golden byte vectors of the released protocol (type byte,
// 8-byte big-endian length, JSON body) for a populated value of each of the
// eighteen messages; every vector must be produced by WriteMsg and decoded back
// to an equal value by ReadMsg.
func TestVerifReplayWire(t *testing.T) {
	golden := verifGolden()
	samples := verifSamples()
	if len(golden) != len(samples) || len(samples) != 18 {
		t.Fatalf("%d samples, %d golden vectors", len(samples), len(golden))
	}
	for i, m := range samples {
		var b bytes.Buffer
		if err := WriteMsg(&b, m); err != nil {
			t.Fatalf("%T: %v", m, err)
		}
		if b.String() != golden[i] {
			t.Fatalf("%T: wire format differs from the released protocol\n got %q\nwant %q", m, b.String(), golden[i])
		}
		back, err := ReadMsg(bytes.NewReader([]byte(golden[i])))
		if err != nil {
			t.Fatalf("%T: golden vector does not decode: %v", m, err)
		}
		if !reflect.DeepEqual(back, m) {
			t.Fatalf("%T: decoded %+v, encoded %+v", m, back, m)
		}
	}
}

// Replay for C17 totality/boundedness: unknown type bytes, negative and
// oversized lengths are errors, and a frame is never longer than 10240 bytes.
func TestVerifReplayDecodeBounds(t *testing.T) {
	frame := func(ty byte, n int64, body []byte) []byte {
		var b bytes.Buffer
		b.WriteByte(ty)
		_ = binary.Write(&b, binary.BigEndian, n)
		b.Write(body)
		return b.Bytes()
	}
	if _, err := ReadMsg(bytes.NewReader(frame('?', 2, []byte("{}")))); err == nil {
		t.Fatal("unknown type byte accepted")
	}
	if _, err := ReadMsg(bytes.NewReader(frame('o', -1, nil))); err == nil {
		t.Fatal("negative length accepted")
	}
	big := []byte(`{"version":"` + strings.Repeat("a", 10241) + `"}`)
	if _, err := ReadMsg(bytes.NewReader(frame('o', int64(len(big)), big))); err == nil {
		t.Fatal("frame longer than the declared bound of 10240 bytes accepted")
	}
	if _, err := ReadMsg(bytes.NewReader(frame('u', 2, []byte("{}")))); err != nil {
		t.Fatalf("registered message refused: %v", err)
	}
	for ty := 0; ty < 256; ty++ {
		_, known := map[byte]bool{'o': true, '1': true, 'p': true, '2': true, 'c': true, 'w': true, 'r': true, 's': true, 'v': true, '3': true, 'h': true, '4': true, 'u': true, 'i': true, 'n': true, 'm': true, '5': true, '6': true}[byte(ty)]
		_, err := ReadMsg(bytes.NewReader(frame(byte(ty), 2, []byte("{}"))))
		if known != (err == nil) {
			t.Fatalf("type byte %q: registered=%v but decode error=%v", byte(ty), known, err)
		}
	}
}

// Replay for C17/C16 "read loop ends the session on any decode error".
func TestVerifReplayReadLoopEnds(t *testing.T) {
	a, b := net.Pipe()
	d := NewDispatcher(a)
	delivered := make(chan Message, 4)
	d.RegisterDefaultHandler(func(m Message) { delivered <- m })
	d.Run()
	go func() {
		_ = WriteMsg(b, &Ping{Timestamp: 7})
		_, _ = b.Write([]byte{'?', 0, 0, 0, 0, 0, 0, 0, 0})
	}()
	select {
	case m := <-delivered:
		if p, ok := m.(*Ping); !ok || p.Timestamp != 7 {
			t.Fatalf("delivered %+v", m)
		}
	case <-time.After(2 * time.Second):
		t.Fatal("decoded message not delivered to the default handler")
	}
	select {
	case <-d.Done():
	case <-time.After(2 * time.Second):
		t.Fatal("dispatcher still running after a malformed message")
	}
	_ = b.Close()
}

func verifSamples() []any {
	ua := &net.UDPAddr{IP: net.IPv4(1, 2, 3, 4), Port: 5}
	return []any{
		&Login{Version: "v", Hostname: "h", Os: "o", Arch: "a", User: "u", PrivilegeKey: "k", Timestamp: 1, RunID: "r", Metas: map[string]string{"m": "n"}, ClientSpec: ClientSpec{Type: "t", AlwaysAuthPass: true}, PoolCount: 2},
		&LoginResp{Version: "v", RunID: "r", Error: "e"},
		&NewProxy{ProxyName: "n", ProxyType: "t", UseEncryption: true, UseCompression: true, BandwidthLimit: "1MB", BandwidthLimitMode: "server", Group: "g", GroupKey: "gk", Metas: map[string]string{"m": "n"}, Annotations: map[string]string{"a": "b"}, RemotePort: 1, CustomDomains: []string{"d"}, SubDomain: "s", Locations: []string{"/"}, HTTPUser: "hu", HTTPPwd: "hp", HostHeaderRewrite: "hh", Headers: map[string]string{"x": "y"}, ResponseHeaders: map[string]string{"p": "q"}, RouteByHTTPUser: "ru", Sk: "sk", AllowUsers: []string{"au"}, Multiplexer: "mx"},
		&NewProxyResp{ProxyName: "n", RemoteAddr: "r", Error: "e"},
		&CloseProxy{ProxyName: "n"},
		&NewWorkConn{RunID: "r", PrivilegeKey: "k", Timestamp: 1},
		&ReqWorkConn{},
		&StartWorkConn{ProxyName: "n", SrcAddr: "s", DstAddr: "d", SrcPort: 1, DstPort: 2, Error: "e"},
		&NewVisitorConn{RunID: "r", ProxyName: "n", SignKey: "k", Timestamp: 1, UseEncryption: true, UseCompression: true},
		&NewVisitorConnResp{ProxyName: "n", Error: "e"},
		&Ping{PrivilegeKey: "k", Timestamp: 1},
		&Pong{Error: "e"},
		&UDPPacket{Content: "c", LocalAddr: ua, RemoteAddr: ua},
		&NatHoleVisitor{TransactionID: "t", ProxyName: "n", PreCheck: true, Protocol: "p", SignKey: "k", Timestamp: 1, MappedAddrs: []string{"m"}, AssistedAddrs: []string{"a"}},
		&NatHoleClient{TransactionID: "t", ProxyName: "n", Sid: "s", MappedAddrs: []string{"m"}, AssistedAddrs: []string{"a"}},
		&NatHoleResp{TransactionID: "t", Sid: "s", Protocol: "p", CandidateAddrs: []string{"c"}, AssistedAddrs: []string{"a"}, DetectBehavior: NatHoleDetectBehavior{Role: "r", Mode: 1, TTL: 2, SendDelayMs: 3, ReadTimeoutMs: 4, CandidatePorts: []PortsRange{{From: 5, To: 6}}, SendRandomPorts: 7, ListenRandomPorts: 8}, Error: "e"},
		&NatHoleSid{TransactionID: "t", Sid: "s", Response: true, Nonce: "n"},
		&NatHoleReport{Sid: "s", Success: true},
	}
}

func verifGolden() []string {
	return []string{
		"o\x00\x00\x00\x00\x00\x00\x00\xc0{\"version\":\"v\",\"hostname\":\"h\",\"os\":\"o\",\"arch\":\"a\",\"user\":\"u\",\"privilege_key\":\"k\",\"timestamp\":1,\"run_id\":\"r\",\"metas\":{\"m\":\"n\"},\"client_spec\":{\"type\":\"t\",\"always_auth_pass\":true},\"pool_count\":2}",
		"1\x00\x00\x00\x00\x00\x00\x00({\"version\":\"v\",\"run_id\":\"r\",\"error\":\"e\"}",
		"p\x00\x00\x00\x00\x00\x00\x01\xd1{\"proxy_name\":\"n\",\"proxy_type\":\"t\",\"use_encryption\":true,\"use_compression\":true,\"bandwidth_limit\":\"1MB\",\"bandwidth_limit_mode\":\"server\",\"group\":\"g\",\"group_key\":\"gk\",\"metas\":{\"m\":\"n\"},\"annotations\":{\"a\":\"b\"},\"remote_port\":1,\"custom_domains\":[\"d\"],\"subdomain\":\"s\",\"locations\":[\"/\"],\"http_user\":\"hu\",\"http_pwd\":\"hp\",\"host_header_rewrite\":\"hh\",\"headers\":{\"x\":\"y\"},\"response_headers\":{\"p\":\"q\"},\"route_by_http_user\":\"ru\",\"sk\":\"sk\",\"allow_users\":[\"au\"],\"multiplexer\":\"mx\"}",
		"2\x00\x00\x00\x00\x00\x00\x000{\"proxy_name\":\"n\",\"remote_addr\":\"r\",\"error\":\"e\"}",
		"c\x00\x00\x00\x00\x00\x00\x00\x12{\"proxy_name\":\"n\"}",
		"w\x00\x00\x00\x00\x00\x00\x000{\"run_id\":\"r\",\"privilege_key\":\"k\",\"timestamp\":1}",
		"r\x00\x00\x00\x00\x00\x00\x00\x02{}",
		"s\x00\x00\x00\x00\x00\x00\x00V{\"proxy_name\":\"n\",\"src_addr\":\"s\",\"dst_addr\":\"d\",\"src_port\":1,\"dst_port\":2,\"error\":\"e\"}",
		"v\x00\x00\x00\x00\x00\x00\x00i{\"run_id\":\"r\",\"proxy_name\":\"n\",\"sign_key\":\"k\",\"timestamp\":1,\"use_encryption\":true,\"use_compression\":true}",
		"3\x00\x00\x00\x00\x00\x00\x00\x1e{\"proxy_name\":\"n\",\"error\":\"e\"}",
		"h\x00\x00\x00\x00\x00\x00\x00#{\"privilege_key\":\"k\",\"timestamp\":1}",
		"4\x00\x00\x00\x00\x00\x00\x00\r{\"error\":\"e\"}",
		"u\x00\x00\x00\x00\x00\x00\x00Y{\"c\":\"c\",\"l\":{\"IP\":\"1.2.3.4\",\"Port\":5,\"Zone\":\"\"},\"r\":{\"IP\":\"1.2.3.4\",\"Port\":5,\"Zone\":\"\"}}",
		"i\x00\x00\x00\x00\x00\x00\x00\x90{\"transaction_id\":\"t\",\"proxy_name\":\"n\",\"pre_check\":true,\"protocol\":\"p\",\"sign_key\":\"k\",\"timestamp\":1,\"mapped_addrs\":[\"m\"],\"assisted_addrs\":[\"a\"]}",
		"n\x00\x00\x00\x00\x00\x00\x00]{\"transaction_id\":\"t\",\"proxy_name\":\"n\",\"sid\":\"s\",\"mapped_addrs\":[\"m\"],\"assisted_addrs\":[\"a\"]}",
		"m\x00\x00\x00\x00\x00\x00\x01\x11{\"transaction_id\":\"t\",\"sid\":\"s\",\"protocol\":\"p\",\"candidate_addrs\":[\"c\"],\"assisted_addrs\":[\"a\"],\"detect_behavior\":{\"role\":\"r\",\"mode\":1,\"ttl\":2,\"send_delay_ms\":3,\"read_timeout\":4,\"candidate_ports\":[{\"from\":5,\"to\":6}],\"send_random_ports\":7,\"listen_random_ports\":8},\"error\":\"e\"}",
		"5\x00\x00\x00\x00\x00\x00\x00<{\"transaction_id\":\"t\",\"sid\":\"s\",\"response\":true,\"nonce\":\"n\"}",
		"6\x00\x00\x00\x00\x00\x00\x00\x1a{\"sid\":\"s\",\"success\":true}",
	}
}
