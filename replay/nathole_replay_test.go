package nathole

import (
	"context"
	"testing"
	"time"

	"github.com/fatedier/frp/pkg/msg"
	"github.com/fatedier/frp/pkg/util/util"
)

// post.verif_getRangePorts.*: a port outside 1..65535 parses fine
func TestVerifReplayRangePortsOutOfRange(t *testing.T) {
	r := getRangePorts([]string{"1.2.3.4:100000"}, 0, 10)
	for _, p := range r {
		if p.From < 1 || p.From > p.To || p.To > 65535 {
			t.Fatalf("bogus candidate range %+v", p)
		}
	}
	if _, err := ClassifyNATFeature([]string{"1.2.3.4:100000", "1.2.3.4:-7"}, nil); err == nil {
		t.Fatalf("out-of-range ports accepted by ClassifyNATFeature")
	}
}

type nopTransporter struct{}

func (nopTransporter) Send(msg.Message) error { return nil }
func (nopTransporter) Do(context.Context, msg.Message, string, string) (msg.Message, error) {
	return nil, nil
}
func (nopTransporter) Dispatch(msg.Message, string) bool                 { return false }
func (nopTransporter) DispatchWithType(msg.Message, string, string) bool { return false }

// post.verif_HandleVisitor.owner_notified_only_for_allowed_user
func TestVerifReplayNatholeAllowUsers(t *testing.T) {
	c, _ := NewController(time.Hour)
	sidCh, err := c.ListenClient("secret", "sk", []string{"alice"})
	if err != nil {
		t.Fatal(err)
	}
	now := time.Now().Unix()
	m := &msg.NatHoleVisitor{ProxyName: "secret", Timestamp: now, SignKey: util.GetAuthKey("sk", now), TransactionID: "t1"}
	done := make(chan struct{})
	go func() {
		defer close(done)
		c.HandleVisitor(m, &nopTransporter{}, "mallory") // key holder, but not an allowed user
	}()
	select {
	case sid := <-sidCh:
		t.Fatalf("owner notified (sid %s) for a visitor user that is not in allowUsers", sid)
	case <-done:
	case <-time.After(3 * time.Second):
	}
}

// bounded-block.(*Controller).HandleVisitor$3.send#1: owner gone after the lookup
func TestVerifReplayNatholeBlockedNotify(t *testing.T) {
	c, _ := NewController(time.Hour)
	if _, err := c.ListenClient("secret", "sk", []string{"*"}); err != nil {
		t.Fatal(err)
	}
	now := time.Now().Unix()
	m := &msg.NatHoleVisitor{ProxyName: "secret", Timestamp: now, SignKey: util.GetAuthKey("sk", now), TransactionID: "t1"}
	done := make(chan struct{})
	go func() {
		defer close(done)
		c.HandleVisitor(m, &nopTransporter{}, "bob")
	}()
	// nobody ever reads sidCh (the xtcp proxy was closed right after the lookup)
	NatHoleTimeout = 1
	time.Sleep(3 * time.Second)
	select {
	case <-done:
	default:
		c.mu.RLock()
		n := len(c.sessions)
		c.mu.RUnlock()
		t.Fatalf("HandleVisitor still blocked %ds after the timeout; %d session(s) leaked", NatHoleTimeout+2, n)
	}
}
