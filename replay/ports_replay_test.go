package ports

// Replay templates for C09 obligations on ports.Manager (injected with
// go test -overlay; never written into /repo).

import (
	"testing"

	"github.com/fatedier/frp/pkg/config/types"
)

// post.verif_Acquire.ok_was_free / ok_was_unowned: the port handed out must
// have been free. Reserved-port path: A's old port is re-owned by B meanwhile.
func TestVerifReplayAcquireReservedOwned(t *testing.T) {
	pm := NewManager("tcp", "127.0.0.1", []types.PortsRange{{Start: 20000, End: 60000}})
	// make the OS probe irrelevant: the probe succeeds for unbound ports
	p, err := pm.Acquire("A", 0)
	if err != nil {
		t.Skip("no port")
	}
	pm.Release(p)
	if _, err := pm.Acquire("B", p); err != nil {
		t.Skipf("B could not take %d: %v", p, err)
	}
	// B owns p (not yet bound). A asks for a server-chosen port again.
	q, err := pm.Acquire("A", 0)
	if err == nil && q == p {
		t.Fatalf("port %d handed out twice: owned by B and now by A", p)
	}
}

// post.verif_Acquire.err_frame_*: an error return must leave the tables alone.
func TestVerifReplayAcquireErrorResidue(t *testing.T) {
	pm := NewManager("tcp", "127.0.0.1", []types.PortsRange{{Start: 0, End: 0}})
	_, err := pm.Acquire("A", 0)
	pm.mu.Lock()
	defer pm.mu.Unlock()
	_, used := pm.usedPorts[0]
	if err != nil && used {
		t.Fatalf("Acquire returned %v but left port 0 marked used", err)
	}
	for p := range pm.freePorts {
		if p < MinPort || p > MaxPort {
			t.Fatalf("port %d outside 1..65535 in the free set", p)
		}
	}
}
