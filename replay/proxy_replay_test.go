package proxy

import (
	"context"
	"testing"

	"github.com/fatedier/frp/pkg/config/types"
	v1 "github.com/fatedier/frp/pkg/config/v1"
	"github.com/fatedier/frp/server/controller"
	"github.com/fatedier/frp/server/ports"
)

// post.verif_UDPProxy_Close.second_close_releases_nothing: the second Close of
// a udp proxy must not release a port another proxy owns by then.
func TestVerifReplayUDPDoubleRelease(t *testing.T) {
	pm := ports.NewManager("udp", "127.0.0.1", []types.PortsRange{{Start: 20000, End: 60000}})
	p, err := pm.Acquire("A", 0)
	if err != nil {
		t.Skip("no port")
	}
	pxy := &UDPProxy{
		BaseProxy: &BaseProxy{rc: &controller.ResourceController{UDPPortManager: pm}, ctx: context.Background()},
		cfg:       &v1.UDPProxyConfig{},
	}
	pxy.realBindPort = p
	// state after the first Close: closed, port released
	pxy.isClosed = true
	pm.Release(p)
	if _, err := pm.Acquire("B", p); err != nil {
		t.Skipf("B could not take the port: %v", err)
	}
	pxy.Close() // the forwarding goroutine's second Close
	if _, err := pm.Acquire("C", p); err == nil {
		t.Fatalf("port %d owned by B was handed to C: second Close of A released it", p)
	}
}
