package server

import (
	"bytes"
	"context"
	"net"
	"sync"
	"testing"
	"time"

	"github.com/fatedier/frp/pkg/msg"
)

// verifFirstMsgConn: an in-memory connection that serves prepared bytes and
// records the order of deadline / read / close calls.
type verifFirstMsgConn struct {
	net.Conn
	mu     sync.Mutex
	r      *bytes.Reader
	events []string
}

func (c *verifFirstMsgConn) note(e string) {
	c.mu.Lock()
	c.events = append(c.events, e)
	c.mu.Unlock()
}
func (c *verifFirstMsgConn) Read(p []byte) (int, error)  { c.note("read"); return c.r.Read(p) }
func (c *verifFirstMsgConn) Write(p []byte) (int, error) { return len(p), nil }
func (c *verifFirstMsgConn) Close() error                { c.note("close"); return nil }
func (c *verifFirstMsgConn) SetReadDeadline(t time.Time) error {
	if t.IsZero() {
		c.note("deadline-off")
	} else {
		c.note("deadline-on")
	}
	return nil
}
func (c *verifFirstMsgConn) RemoteAddr() net.Addr {
	return &net.TCPAddr{IP: net.IPv4(127, 0, 0, 1), Port: 1}
}
func (c *verifFirstMsgConn) has(e string) bool {
	c.mu.Lock()
	defer c.mu.Unlock()
	for _, x := range c.events {
		if x == e {
			return true
		}
	}
	return false
}

// Replay for C17 "a peer that sends an unexpected or malformed first message is
// disconnected": the first read happens under a deadline, and garbage, a
// truncated frame or a well-formed message that cannot open a connection all
// end with the connection closed.
func TestVerifReplayFirstMessage(t *testing.T) {
	var ping bytes.Buffer
	_ = msg.WriteMsg(&ping, &msg.Ping{Timestamp: 1})
	var udp bytes.Buffer
	_ = msg.WriteMsg(&udp, &msg.UDPPacket{Content: "x"})
	inputs := map[string][]byte{
		"garbage":         []byte("GET / HTTP/1.1\r\n\r\n"),
		"empty":           {},
		"truncated":       {'o', 0, 0, 0, 0, 0, 0, 0, 50, '{'},
		"negative length": {'o', 0xff, 0xff, 0xff, 0xff, 0xff, 0xff, 0xff, 0xff},
		"unexpected ping": ping.Bytes(),
		"unexpected udp":  udp.Bytes(),
		"malformed body":  {'o', 0, 0, 0, 0, 0, 0, 0, 2, '{', '{'},
	}
	svr := &Service{}
	for name, in := range inputs {
		c := &verifFirstMsgConn{r: bytes.NewReader(in)}
		svr.handleConnection(context.Background(), c, false)
		if len(c.events) == 0 || c.events[0] != "deadline-on" {
			t.Fatalf("%s: first read not under a deadline: %v", name, c.events)
		}
		if !c.has("close") {
			t.Fatalf("%s: connection not closed: %v", name, c.events)
		}
	}
}
