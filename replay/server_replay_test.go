package server

import (
	"context"
	"net"
	"testing"

	"github.com/fatedier/frp/pkg/auth"
	v1 "github.com/fatedier/frp/pkg/config/v1"
	"github.com/fatedier/frp/pkg/msg"
	"github.com/fatedier/frp/pkg/util/xlog"
)

// nopanic.server.NewControl.makechan: a login with pool_count < -10
func TestVerifReplayNewControlNegativePool(t *testing.T) {
	defer func() {
		if r := recover(); r != nil {
			t.Fatalf("NewControl panicked on pool_count=-11: %v", r)
		}
	}()
	c1, c2 := net.Pipe()
	defer c1.Close()
	defer c2.Close()
	cfg := &v1.ServerConfig{}
	cfg.Complete()
	_, _ = NewControl(context.Background(), nil, nil, nil, auth.AlwaysPassVerifier, c1, false, &msg.Login{PoolCount: -11}, cfg)
}

// post.verif_RegisterWorkConn.nil_result_means_pooled: session ended (pool closed)
func TestVerifReplayRegisterWorkConnClosedPool(t *testing.T) {
	ctl := &Control{workConnCh: make(chan net.Conn, 2), xl: xlog.New()}
	close(ctl.workConnCh)
	c1, c2 := net.Pipe()
	defer c1.Close()
	defer c2.Close()
	if err := ctl.RegisterWorkConn(c1); err == nil {
		t.Fatalf("RegisterWorkConn on an ended session returned nil: the caller neither pools nor closes the connection")
	}
}
