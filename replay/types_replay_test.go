package types

import "testing"

// Replay for C18 bandwidth literals: number x unit bytes, text kept.
func TestVerifReplayBandwidthLiteral(t *testing.T) {
	cases := map[string]int64{"1MB": 1048576, "1.5MB": 1572864, "0.5KB": 512, "10KB": 10240, " 2MB ": 2097152, "0.25MB": 262144, "1.001KB": 1025}
	for text, want := range cases {
		q, err := NewBandwidthQuantity(text)
		if err != nil {
			t.Fatalf("%q: %v", text, err)
		}
		if q.Bytes() != want {
			t.Fatalf("%q: %d bytes, want %d", text, q.Bytes(), want)
		}
		back, err := NewBandwidthQuantity(q.String())
		if err != nil || back.Bytes() != want || back.String() != q.String() {
			t.Fatalf("%q: text form %q does not round-trip (%d bytes, err=%v)", text, q.String(), back.Bytes(), err)
		}
	}
	q := BandwidthQuantity{s: "3MB", i: 3 * MB}
	if err := q.UnmarshalString("3XB"); err == nil || q.s != "3MB" || q.i != 3*MB {
		t.Fatalf("unparsable text changed the quantity: %+v err=%v", q, err)
	}
}
