package udp

import (
	"bytes"
	"fmt"
	"net"
	"testing"
	"time"

	"github.com/fatedier/frp/pkg/msg"
)

// Replay for C03 forwarding obligations: payloads, boundaries and reply
// addressing through ForwardUserConn (server side) and Forwarder (client side).
func TestVerifReplayDatagrams(t *testing.T) {
	// ---- server side
	pub, err := net.ListenUDP("udp", &net.UDPAddr{IP: net.IPv4(127, 0, 0, 1)})
	if err != nil {
		t.Fatal(err)
	}
	readCh := make(chan *msg.UDPPacket, 16)
	sendCh := make(chan *msg.UDPPacket, 16)
	go ForwardUserConn(pub, readCh, sendCh, 1500)
	users := make([]*net.UDPConn, 2)
	for i := range users {
		users[i], err = net.DialUDP("udp", nil, pub.LocalAddr().(*net.UDPAddr))
		if err != nil {
			t.Fatal(err)
		}
		defer users[i].Close()
	}
	payload := func(i, n int) []byte {
		b := make([]byte, n)
		for k := range b {
			b[k] = byte(k*31 + i*7 + 251)
		}
		return b
	}
	for i, u := range users {
		for _, n := range []int{1, 3, 100, 1400} {
			p := payload(i, n)
			if _, err := u.Write(p); err != nil {
				t.Fatal(err)
			}
			select {
			case m := <-sendCh:
				got, err := GetContent(m)
				if err != nil || !bytes.Equal(got, p) {
					t.Fatalf("user %d, %d bytes: packet carries %d bytes (err=%v): payload altered, truncated or merged", i, n, len(got), err)
				}
				if m.RemoteAddr == nil || m.RemoteAddr.String() != u.LocalAddr().String() {
					t.Fatalf("user %d: packet tagged with %v, datagram came from %v", i, m.RemoteAddr, u.LocalAddr())
				}
				// the reply goes back to that user and to no other
				reply := append([]byte("re:"), p...)
				readCh <- NewUDPPacket(reply, nil, m.RemoteAddr)
				buf := make([]byte, 2000)
				_ = u.SetReadDeadline(time.Now().Add(2 * time.Second))
				k, err := u.Read(buf)
				if err != nil || !bytes.Equal(buf[:k], reply) {
					t.Fatalf("user %d: reply of %d bytes arrived as %d bytes (err=%v)", i, len(reply), k, err)
				}
				other := users[1-i]
				_ = other.SetReadDeadline(time.Now().Add(50 * time.Millisecond))
				if k, err := other.Read(buf); err == nil {
					t.Fatalf("user %d also received %d bytes of user %d's reply", 1-i, k, i)
				}
			case <-time.After(2 * time.Second):
				t.Fatalf("user %d: datagram of %d bytes never reached the tunnel", i, n)
			}
		}
	}
	pub.Close()

	// ---- client side
	backend, err := net.ListenUDP("udp", &net.UDPAddr{IP: net.IPv4(127, 0, 0, 1)})
	if err != nil {
		t.Fatal(err)
	}
	defer backend.Close()
	go func() {
		buf := make([]byte, 2000)
		for {
			n, a, err := backend.ReadFromUDP(buf)
			if err != nil {
				return
			}
			_, _ = backend.WriteToUDP(append([]byte("echo:"), buf[:n]...), a)
		}
	}()
	cRead := make(chan *msg.UDPPacket, 16)
	cSend := make(chan msg.Message, 16)
	Forwarder(backend.LocalAddr().(*net.UDPAddr), cRead, cSend, 1500)
	for i := 0; i < 2; i++ {
		ua := &net.UDPAddr{IP: net.IPv4(10, 0, 0, byte(i+1)), Port: 4000 + i}
		for _, n := range []int{1, 64, 1200} {
			p := payload(i, n)
			cRead <- NewUDPPacket(p, nil, ua)
			select {
			case m := <-cSend:
				pk, ok := m.(*msg.UDPPacket)
				if !ok {
					t.Fatalf("reply is a %T", m)
				}
				got, err := GetContent(pk)
				want := append([]byte("echo:"), p...)
				if err != nil || !bytes.Equal(got, want) {
					t.Fatalf("user %v: reply carries %d bytes, backend sent %d (err=%v)", ua, len(got), len(want), err)
				}
				if pk.RemoteAddr == nil || pk.RemoteAddr.String() != ua.String() {
					t.Fatalf("reply to %v is tagged with %v", ua, pk.RemoteAddr)
				}
			case <-time.After(2 * time.Second):
				t.Fatal(fmt.Sprintf("no reply for user %v, %d bytes", ua, n))
			}
		}
	}
	close(cRead)
}
