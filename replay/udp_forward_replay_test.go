package udp

import (
	"net"
	"testing"
	"time"

	"github.com/fatedier/frp/pkg/msg"
)

// Replay for C16 nopanic.*.ForwardUserConn.send-on-closed: the proxy's Close
// closes the public UDP socket and then sendCh while ForwardUserConn runs in
// its own goroutine; a datagram that was read just before the socket was
// closed is then sent on the closed channel. The state "datagram read, sendCh
// closed" is reproduced directly.
func TestVerifReplayForwardUserConnClosedSendCh(t *testing.T) {
	conn, err := net.ListenUDP("udp", &net.UDPAddr{IP: net.IPv4(127, 0, 0, 1)})
	if err != nil {
		t.Fatal(err)
	}
	defer conn.Close()
	readCh := make(chan *msg.UDPPacket)
	sendCh := make(chan *msg.UDPPacket, 1)
	close(sendCh) // the proxy was closed
	c, err := net.DialUDP("udp", nil, conn.LocalAddr().(*net.UDPAddr))
	if err != nil {
		t.Fatal(err)
	}
	defer c.Close()
	if _, err := c.Write([]byte("late datagram")); err != nil {
		t.Fatal(err)
	}
	done := make(chan any, 1)
	go func() {
		defer func() { done <- recover() }()
		ForwardUserConn(conn, readCh, sendCh, 1500)
	}()
	select {
	case r := <-done:
		if r != nil {
			t.Fatalf("ForwardUserConn panicked (this goroutine has no recover in the server: the process would exit): %v", r)
		}
	case <-time.After(500 * time.Millisecond):
		// still serving: fine
	}
	close(readCh)
}
