package udp

import (
	"bytes"
	"net"
	"testing"

	"github.com/fatedier/frp/pkg/msg"
)

// Replay for C17 UDP payload round trip: datagrams with every byte value and
// lengths around the base64 padding boundaries come back unchanged.
func TestVerifReplayUDPPayload(t *testing.T) {
	all := make([]byte, 0, 259)
	for i := 0; i < 259; i++ {
		all = append(all, byte(i*7+251))
	}
	la := &net.UDPAddr{IP: net.IPv4(10, 0, 0, 1), Port: 1}
	ra := &net.UDPAddr{IP: net.ParseIP("2001:db8::1"), Port: 2}
	// golden: the released protocol uses the standard base64 alphabet
	if g := NewUDPPacket([]byte{0xfb, 0xef, 0xbe, 0xff, 0xff, 0xfe}, la, ra).Content; g != "++++///+" {
		t.Fatalf("payload fb ef be ff ff fe travels as %q, the released protocol carries \"++++///+\"", g)
	}
	if b, err := GetContent(&msg.UDPPacket{Content: "++++///+"}); err != nil || !bytes.Equal(b, []byte{0xfb, 0xef, 0xbe, 0xff, 0xff, 0xfe}) {
		t.Fatalf("released-protocol payload \"++++///+\" decodes to %x, err=%v", b, err)
	}
	for n := 0; n <= len(all); n++ {
		m := NewUDPPacket(all[:n], la, ra)
		back, err := GetContent(m)
		if err != nil || !bytes.Equal(back, all[:n]) {
			t.Fatalf("payload of %d bytes came back as %d bytes, err=%v", n, len(back), err)
		}
		if m.LocalAddr != la || m.RemoteAddr != ra {
			t.Fatalf("addresses changed: %v %v", m.LocalAddr, m.RemoteAddr)
		}
	}
}
