package validation

import (
	"strings"
	"testing"

	v1 "github.com/fatedier/frp/pkg/config/v1"
)

// Replay for C18 "custom domains outside the server's subdomain host whatever
// their letter case": the vhost router lower-cases hosts, so an upper-case
// spelling of a name inside the subdomain space must be refused as well.
func TestVerifReplayCustomDomainCase(t *testing.T) {
	s := &v1.ServerConfig{SubDomainHost: "example.com"}
	for _, d := range []string{"a.example.com", "A.EXAMPLE.COM", "a.Example.com"} {
		c := &v1.DomainConfig{CustomDomains: []string{d}}
		err := validateDomainConfigForServer(c, s)
		if err == nil && strings.Contains(strings.ToLower(d), strings.ToLower(s.SubDomainHost)) {
			t.Fatalf("custom domain %q accepted although it lies in the subdomain space of %q", d, s.SubDomainHost)
		}
	}
	s2 := &v1.ServerConfig{SubDomainHost: "Example.COM"}
	if err := validateDomainConfigForServer(&v1.DomainConfig{CustomDomains: []string{"a.example.com"}}, s2); err == nil {
		t.Fatalf("custom domain accepted although it lies in the subdomain space of %q", s2.SubDomainHost)
	}
}

// Replay for C18 "ports in range".
func TestVerifReplayValidatePort(t *testing.T) {
	for _, p := range []int{-1, 0, 1, 65535, 65536, 1 << 20} {
		if (ValidatePort(p, "f") == nil) != (p >= 0 && p <= 65535) {
			t.Fatalf("ValidatePort(%d) verdict wrong", p)
		}
	}
}
