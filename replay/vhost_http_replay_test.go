package vhost

import (
	"errors"
	"io"
	"net"
	"net/http"
	"net/http/httptest"
	"strings"
	"testing"
	"time"
)

// Replay for C02 obligations: a request through the real reverse proxy reaches
// the backend with method, path, query, body and end-to-end headers unchanged
// apart from the declared rewrites; the response comes back with status, body
// and headers plus the configured response headers; an unreachable backend gets
// the 404 page and a silent one a 504.
func TestVerifReplayHTTPHooks(t *testing.T) {
	type seen struct {
		method, path, query, host, body, xff, custom, e2e string
	}
	got := make(chan seen, 4)
	backend := httptest.NewServer(http.HandlerFunc(func(w http.ResponseWriter, r *http.Request) {
		if r.URL.Path == "/slow" {
			time.Sleep(1500 * time.Millisecond)
		}
		b, _ := io.ReadAll(r.Body)
		got <- seen{r.Method, r.URL.Path, r.URL.RawQuery, r.Host, string(b), r.Header.Get("X-Forwarded-For"), r.Header.Get("X-From-Config"), r.Header.Get("X-End-To-End")}
		w.Header().Set("X-Backend", "yes")
		w.WriteHeader(http.StatusTeapot)
		_, _ = w.Write([]byte("backend body"))
	}))
	defer backend.Close()
	addr := strings.TrimPrefix(backend.URL, "http://")
	rp := NewHTTPReverseProxy(HTTPReverseProxyOptions{ResponseHeaderTimeoutS: 1}, NewRouters())
	err := rp.Register(RouteConfig{
		Domain: "site.test", Location: "/", RewriteHost: "rewritten.test",
		Headers:         map[string]string{"X-From-Config": "cfg"},
		ResponseHeaders: map[string]string{"X-Resp-Config": "rcfg"},
		CreateConnFn:    func(string) (net.Conn, error) { return net.Dial("tcp", addr) },
	})
	if err != nil {
		t.Fatal(err)
	}
	if err := rp.Register(RouteConfig{Domain: "down.test", Location: "/", CreateConnFn: func(string) (net.Conn, error) { return nil, errors.New("no backend") }}); err != nil {
		t.Fatal(err)
	}
	front := httptest.NewServer(rp)
	defer front.Close()
	do := func(method, host, target, body string) *http.Response {
		req, _ := http.NewRequest(method, front.URL+target, strings.NewReader(body))
		req.Host = host
		req.Header.Set("X-End-To-End", "e2e")
		req.Header.Set("X-Forwarded-For", "203.0.113.9")
		resp, err := http.DefaultClient.Do(req)
		if err != nil {
			t.Fatal(err)
		}
		return resp
	}
	resp := do("PUT", "site.test", "/a/b%20c?x=1&y=%2F&x=2", "request body")
	b, _ := io.ReadAll(resp.Body)
	resp.Body.Close()
	s := <-got
	if s.method != "PUT" || s.path != "/a/b c" || s.query != "x=1&y=%2F&x=2" || s.body != "request body" || s.e2e != "e2e" {
		t.Fatalf("backend saw %+v", s)
	}
	if s.host != "rewritten.test" || s.custom != "cfg" {
		t.Fatalf("declared rewrites not applied: host %q, configured header %q", s.host, s.custom)
	}
	if !strings.HasPrefix(s.xff, "203.0.113.9, ") {
		t.Fatalf("X-Forwarded-For not extended by the user's address: %q", s.xff)
	}
	if resp.StatusCode != http.StatusTeapot || string(b) != "backend body" || resp.Header.Get("X-Backend") != "yes" || resp.Header.Get("X-Resp-Config") != "rcfg" {
		t.Fatalf("user saw status %d body %q headers %v", resp.StatusCode, b, resp.Header)
	}
	resp = do("GET", "down.test", "/", "")
	b, _ = io.ReadAll(resp.Body)
	resp.Body.Close()
	if resp.StatusCode != http.StatusNotFound || len(b) == 0 {
		t.Fatalf("unreachable backend: status %d, %d bytes", resp.StatusCode, len(b))
	}
	start := time.Now()
	resp = do("GET", "site.test", "/slow", "")
	resp.Body.Close()
	if resp.StatusCode != http.StatusGatewayTimeout || time.Since(start) > 1400*time.Millisecond {
		t.Fatalf("silent backend: status %d after %v", resp.StatusCode, time.Since(start))
	}
	<-got
}
