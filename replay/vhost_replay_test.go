package vhost

import (
	"encoding/base64"
	"errors"
	"net"
	"net/http"
	"net/http/httptest"
	"testing"
)

// post.verif_ServeHTTP.same_http_user_checked_and_forwarded: the credential
// check is keyed by the Authorization user, forwarding by the
// Proxy-Authorization user (absolute-form request).
func TestVerifReplayProxyAuthorizationBypass(t *testing.T) {
	rp := NewHTTPReverseProxy(HTTPReverseProxyOptions{}, NewRouters())
	dialedProtected := false
	// alice's password-protected route
	if err := rp.Register(RouteConfig{
		Domain: "svc.example.com", Location: "/", RouteByHTTPUser: "alice", Username: "alice", Password: "secret",
		CreateConnFn: func(string) (net.Conn, error) {
			dialedProtected = true
			return nil, errors.New("backend of alice reached")
		},
	}); err != nil {
		t.Fatal(err)
	}
	req := httptest.NewRequest("GET", "http://svc.example.com/", nil) // absolute-form: URL.Host set
	req.Header.Set("Proxy-Authorization", "Basic "+base64.StdEncoding.EncodeToString([]byte("alice:wrong")))
	rw := httptest.NewRecorder()
	rp.ServeHTTP(rw, req)
	if dialedProtected {
		t.Fatalf("alice's password-protected backend was dialled for a request with a wrong password (status %d)", rw.Code)
	}
	if rw.Code != http.StatusUnauthorized && rw.Code != http.StatusNotFound {
		t.Logf("status %d", rw.Code)
	}
}
