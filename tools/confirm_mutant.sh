#!/bin/bash
# usage: confirm_mutant.sh <src dir with patch.diff demo_test.go notes.txt> <seed id> <property>
# Confirms in a scratch worktree of /repo HEAD: patch applies, builds, unit tests pass, demo fails with / passes without.
SRC="$1"; ID="$2"; PROP="$3"
export GOFLAGS=-mod=mod GOPROXY=off GOSUMDB=off GOTOOLCHAIN=local
W=/tmp/cw_$$
git -C /repo worktree add -q --detach $W HEAD || exit 2
cd $W
DIR=$(head -3 "$SRC/demo_test.go" | grep -o 'dir: *[^ ]*' | head -1 | sed 's/dir: *//')
res="ok"
if ! git apply "$SRC/patch.diff" 2>/dev/null; then res="patch-does-not-apply"; fi
if [ "$res" = ok ]; then
  go build ./... >/dev/null 2>&1 || res="build-fails"
fi
if [ "$res" = ok ]; then
  go test -vet=off -count=1 ./pkg/... >/tmp/cw_unit_$$.log 2>&1 || res="unit-tests-fail"
fi
if [ "$res" = ok ]; then
  cp "$SRC/demo_test.go" "$DIR/zz_seed_demo_test.go"
  if go test -vet=off -count=1 -timeout 120s "./$DIR/" >/tmp/cw_demo1_$$.log 2>&1; then res="demo-does-not-fail-with-mutant"; fi
  git checkout -q -- . 
  cp "$SRC/demo_test.go" "$DIR/zz_seed_demo_test.go"
  if [ "$res" = ok ] && ! go test -vet=off -count=1 -timeout 120s "./$DIR/" >/tmp/cw_demo2_$$.log 2>&1; then res="demo-fails-without-mutant"; fi
fi
cd /; git -C /repo worktree remove --force $W
echo "$ID: $res (demo dir $DIR)"
if [ "$res" = ok ]; then
  mkdir -p /verif/seeded/$ID
  cp "$SRC/patch.diff" "$SRC/demo_test.go" /verif/seeded/$ID/
  cp "$SRC/notes.txt" /verif/seeded/$ID/notes.txt 2>/dev/null
  python3 - "$ID" "$PROP" "$DIR" <<'PY'
import json,sys,subprocess
i,prop,d=sys.argv[1:4]
notes=open('/verif/seeded/%s/notes.txt'%i).read() if True else ''
head=subprocess.run(["git","-C","/repo","rev-parse","--short","HEAD"],capture_output=True,text=True).stdout.strip()
json.dump({"id":i,"property":prop,"breaks":notes.strip(),"demo_dir":d,"confirmed_at_repo_commit":head,
 "what_i_ran":"scratch worktree of /repo HEAD: git apply patch.diff; go build ./...; go test -vet=off ./pkg/... (pass); copy demo_test.go into %s and go test (FAILS with the patch, PASSES after git checkout)"%d,
 "source":"independent sub-agent given only the property text and a scratch worktree"},open('/verif/seeded/%s/meta.json'%i,'w'),indent=1)
PY
fi
rm -f /tmp/cw_*_$$.log
