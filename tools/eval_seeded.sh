#!/bin/bash
# Runs the claimed checks against every seeded mutant; prints which check (if any) catches it.
cd /verif
for d in seeded/*/; do
  id=$(basename $d)
  prop=$(python3 -c "import json;print(json.load(open('$d/meta.json'))['property'])")
  extra=$(python3 -c "import json;print(' '.join(json.load(open('$d/meta.json')).get('also_check',[])))")
  out=$(./tools/try_mutant.sh /verif/$d/patch.diff $prop $extra 2>&1)
  n=$(echo "$out" | grep -c VIOLATION)
  first=$(echo "$out" | grep VIOLATION | head -2 | sed 's/.*replay=\/verif\/replays\///' | cut -c1-110 | tr '\n' ';')
  echo "$id [$prop $extra]: violations=$n $first"
done
