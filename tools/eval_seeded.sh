#!/bin/bash
# Runs the claimed checks against every seeded mutant; prints which check (if any) catches it
# and records the result in seeded/results.json.
# Works on a scratch worktree of /repo (outside /repo and /verif), removed afterwards,
# so /repo's working tree stays untouched while this runs.
cd /verif
W=${EVAL_WORKTREE:-/scratch/evalrepo}
mkdir -p "$(dirname "$W")"
git -C /repo worktree remove --force "$W" 2>/dev/null
git -C /repo worktree add -q --detach "$W" HEAD || exit 2
export VERIF_REPO="$W"
trap 'git -C /repo worktree remove --force "$W"; git -C /repo worktree prune' EXIT
python3 - "$@" <<'PY'
import json,glob,subprocess,re,os,sys
res={}
only=sys.argv[1:]
try: res=json.load(open('/verif/seeded/results.json')) if (only and not os.environ.get('RESULTS_OUT')) else {}
except Exception: res={}
for d in sorted(glob.glob('/verif/seeded/*/meta.json')):
    m=json.load(open(d)); i=m['id']
    if only and not any(i.startswith(o) for o in only): continue
    props=[m['property']]+m.get('also_check',[])
    out=subprocess.run(['/verif/tools/try_mutant.sh','/verif/seeded/%s/patch.diff'%i]+props,capture_output=True,text=True).stdout
    obs=[]
    for l in out.splitlines():
        mm=re.search(r'VIOLATION property=(\S+) replay=/verif/replays/\S+/(\S+)\.txt',l)
        if mm:
            o=mm.group(1)+":"+mm.group(2)
            if o not in obs: obs.append(o)
    res[i]={'checked':props,'violations':len(obs),'obligations':obs}
    # a run that did not complete (govc failed, tree does not type-check, patch does not apply)
    # is not a verdict: flagged, so that it is re-run instead of being read as "not detected"
    failed=[l for l in out.splitlines() if 'govc failed' in l or 'BROKEN' in l or 'PATCH DOES NOT APPLY' in l or 'load error' in l]
    if not obs and (failed or 'obligations discharged' not in out):
        res[i]['run_failed']=True
    print(i,props,'violations=%d'%len(obs),'RUN-FAILED' if res[i].get('run_failed') else '','; '.join(obs[:2])[:200])
json.dump(res,open(os.environ.get('RESULTS_OUT','/verif/seeded/results.json'),'w'),indent=1)
PY
