#!/bin/bash
# Runs the claimed checks against every seeded mutant; prints which check (if any) catches it
# and records the result in seeded/results.json.
cd /verif
python3 - <<'PY'
import json,glob,subprocess,re,os
res={}
for d in sorted(glob.glob('/verif/seeded/*/meta.json')):
    m=json.load(open(d)); i=m['id']
    props=[m['property']]+m.get('also_check',[])
    out=subprocess.run(['/verif/tools/try_mutant.sh','/verif/seeded/%s/patch.diff'%i]+props,capture_output=True,text=True).stdout
    obs=[]
    for l in out.splitlines():
        mm=re.search(r'VIOLATION property=(\S+) replay=/verif/replays/\S+/(\S+)\.txt',l)
        if mm:
            o=mm.group(1)+":"+mm.group(2)
            if o not in obs: obs.append(o)
    res[i]={'checked':props,'violations':len(obs),'obligations':obs}
    print(i,props,'violations=%d'%len(obs),'; '.join(obs[:2])[:200])
json.dump(res,open('/verif/seeded/results.json','w'),indent=1)
PY
