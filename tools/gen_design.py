#!/usr/bin/env python3
"""Regenerates the generated part of DESIGN.md: per-property status, findings, seeded changes."""
import json, os, glob, re, subprocess
V = "/verif"
notes = json.load(open(V + "/notes.json"))
props = [json.loads(l) for l in open(V + "/properties.jsonl")]
kf = json.load(open(V + "/known_findings.json"))["findings"]
out = []
out.append("## 5. Per-property status\n")
out.append("Claimed properties have a check in MANIFEST.json (level `proof`); the others are listed under `not_applicable` with the reason.\n")
for p in props:
    n = notes.get(p["id"], {})
    out.append("### %s — %s\n" % (p["id"], p["title"]))
    if n.get("claimed"):
        ev = {}
        try:
            ev = json.load(open("%s/evidence/%s.json" % (V, p["id"])))
        except Exception:
            pass
        cov = ev.get("coverage", {})
        out.append("*Decided:* %s\n" % n["level_text"])
        out.append("*Trusted / not decided:* %s\n" % n["level_note"])
        if n.get("remainder"):
            out.append("*Undecided remainder:* %s\n" % n["remainder"])
        if cov:
            out.append("*Last run:* %d obligations (%d discharged), %d path instances, %d functions under contract, %.0f s.\n" % (
                cov.get("obligations", 0), cov.get("discharged", 0), cov.get("obligation_instances", 0), len(cov.get("functions_under_contract", [])), ev.get("wall_s", 0)))
    else:
        out.append("*Not claimed:* %s\n" % n.get("na_reason", "no contract within reach of the engine decides this property yet"))
out.append("\n## 6. Genuine defects found on the pinned tree\n")
out.append("Each was first reported by the failing obligation named below on the then-current tree, reproduced on the real code (replay test where one is listed), and repaired by one minimal `fix:` commit in /repo.\n")
out.append("| property | obligation that failed | commit | what failed | replay |")
out.append("|---|---|---|---|---|")
for f in kf:
    line = f.get("line", "")
    what = re.sub(r"^fixed: property=\S+ \S+ ", "", line)
    out.append("| %s | `%s` | %s | %s | %s |" % (f["property"], f["obligation"], f.get("commit", ""), what, f.get("replay", "") or "—"))
out.append("\n## 7. Seeded changes (independent sub-agents) and which checks catch them\n")
out.append("Each change was written by a sub-agent that saw only the property text and a scratch worktree, compiles, passes the pinned tests, and comes with a demonstration test that fails with the change and passes without (re-confirmed in a scratch worktree: `tools/confirm_mutant.sh`). `tools/eval_seeded.sh` applies each to /repo, runs the listed checks and undoes it.\n")
res = {}
try:
    res = json.load(open(V + "/seeded/results.json"))
except Exception:
    pass
out.append("| seeded change | property | what it needs to manifest (from the author's notes) | caught by |")
out.append("|---|---|---|---|")
for d in sorted(glob.glob(V + "/seeded/*/meta.json")):
    m = json.load(open(d))
    notes_txt = m.get("breaks", "").replace("\n", " ").replace("|", "/")
    if len(notes_txt) > 260:
        notes_txt = notes_txt[:260] + "…"
    r = res.get(m["id"], {})
    caught = "; ".join(r.get("obligations", [])[:3]) or "(run tools/eval_seeded.sh)"
    out.append("| %s | %s | %s | %s |" % (m["id"], m["property"], notes_txt, caught))
text = open(V + "/DESIGN.md").read()
a = text.index("<!-- BEGIN GENERATED -->") + len("<!-- BEGIN GENERATED -->")
b = text.index("<!-- END GENERATED -->")
text = text[:a] + "\n" + "\n".join(out) + "\n" + text[b:]
open(V + "/DESIGN.md", "w").write(text)
print("DESIGN.md regenerated")
