#!/usr/bin/env python3
"""Regenerates /verif/MANIFEST.json from /verif/notes.json (per-property texts)."""
import json, subprocess
V = "/verif"
notes = json.load(open(V + "/notes.json"))
props = [json.loads(l) for l in open(V + "/properties.jsonl")]
hooks_commits = subprocess.run(["git", "-C", "/repo", "log", "--format=%h %s", "--grep=^verif:"], capture_output=True, text=True).stdout.strip().splitlines()
checks, na = [], []
for p in props:
    pid = p["id"]
    n = notes.get(pid, {})
    if n.get("claimed"):
        checks.append({
            "property_id": pid,
            "quick_cmd": "./check %s --tier quick" % pid,
            "thorough_cmd": "./check %s --tier thorough" % pid,
            "evidence_file": "/verif/evidence/%s.json" % pid,
            "replay_cmd_template": "./check %s --replay {path}" % pid,
            "engine": "govc",
            "level_claimed": {"category": "proof", "text": n["level_text"], "design_ref": "DESIGN.md section 5, " + pid},
            "level_note": n["level_note"],
            "technique": "contract-based deductive verification: VCs generated from go/ssa for the real functions against tag-guarded Go contracts, discharged by z3/cvc5",
        })
    else:
        na.append({"property_id": pid, "reason": n.get("na_reason", "no contract within reach of the engine decides this property yet (see DESIGN.md)")})
m = {
    "version": 1,
    "setup_cmd": "cd /verif/govc && GOFLAGS=-mod=mod GOPROXY=off GOSUMDB=off GOTOOLCHAIN=local go build -o /verif/bin/govc .",
    "hooks": {
        "guard": "verif",
        "enable": "Go build tag 'verif': contract files zz_contracts_verif.go and package verif/ carry //go:build verif; govc loads /repo with -tags=verif (missing contract files are overlaid from /verif/contracts)",
        "baseline_off_cmd": "for m in $(cat /w/out/gomods.txt); do MF=$(cd /repo/$m && . /w/out/goenv.sh && gomodflag); (cd /repo/$m && go test $MF -json -vet=off -count=1 -timeout 25m ./...); done",
        "source_commits": [c.split()[0] for c in hooks_commits],
        "add_only": True,
    },
    "engines": [{
        "name": "govc", "path": "/verif/govc", "serves_properties": [c["property_id"] for c in checks],
        "kind_free_text": "verification-condition generator over go/ssa (x/tools v0.29.0): symbolic execution of the real functions, modular use of callee contracts, monitor invariants at lock/unlock, loop invariants; obligations discharged by z3-new 5.1.0 / z3 4.8.12 / cvc5 1.0",
    }],
    "checks": checks,
    "notes": "All checks are ./check <ID>; evidence is rewritten on every run; known_findings.json lists genuine defects (fixed ones with their commits).",
    "not_applicable": na,
}
json.dump(m, open(V + "/MANIFEST.json", "w"), indent=1)
print("checks:", [c["property_id"] for c in checks], "n/a:", len(na))
