#!/usr/bin/env python3
"""Prints the golden wire-format lemmas for pkg/msg (type bytes, JSON tags, field
types) from the source at the pinned commit. Run once; the output is committed in
contracts/pkg/msg/zz_contracts_verif.go and is the golden vector of the check."""
import re, subprocess, sys
src = subprocess.run(["git", "-C", "/repo", "show", sys.argv[1] + ":pkg/msg/msg.go"], capture_output=True, text=True, check=True).stdout
consts = dict(re.findall(r"^\s+(Type\w+)\s+= '(.)'", src, re.M))
table = re.findall(r"^\s+(Type\w+):\s+(\w+)\{\},", src, re.M)
structs = {}
for m in re.finditer(r"^type (\w+) struct \{(.*?)^\}", src, re.M | re.S):
    fields = []
    for l in m.group(2).splitlines():
        l = l.split("//")[0].strip() if not "`" in l else l.strip()
        fm = re.match(r"^(\w+)\s+(\S+)\s+`([^`]*)`", l)
        if fm:
            fields.append(fm.groups())
    structs[m.group(1)] = fields
out = []
out.append("//verif:lemma\n//verif:props C17\nfunc verif_golden_registry_size() {")
out.append("\tverif.Assert(len(msgTypeMap) == %d, \"eighteen_registered_messages\")" % len(table))
out.append("}\n")
for c, t in table:
    out.append("//verif:lemma\n//verif:props C17\nfunc verif_golden_byte_%s() {" % t)
    out.append("\t_, ok := msgTypeMap['%s'].(%s)\n\tverif.Assert(ok && %s == '%s', \"byte_%s_is_%s\")" % (consts[c], t, c, consts[c], consts[c], t))
    out.append("}\n")
msgs = [t for _, t in table] + ["ClientSpec", "PortsRange", "NatHoleDetectBehavior"]
for t in msgs:
    if not structs.get(t):
        continue
    out.append("//verif:lemma\n//verif:props C17\nfunc verif_golden_fields_%s() {" % t)
    for name, ty, tag in structs[t]:
        gty = ty
        out.append("\tverif.Assert(verif.FieldTag[%s](\"%s\") == `%s` && verif.FieldType[%s](\"%s\") == \"%s\", \"%s\")" % (t, name, tag, t, name, gty, name))
    out.append("}\n")
print("\n".join(out))
