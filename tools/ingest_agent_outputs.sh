#!/bin/bash
# ingest finished agent outputs: confirm and copy into /verif/seeded/<P>_s<k>
cd /scratch/agents
for p in C*; do for k in 1 2; do
  d=/scratch/agents/$p/out$k
  [ -f $d/patch.diff ] && [ -f $d/demo_test.go ] && [ -f $d/notes.txt ] || continue
  [ -f $d/.ingested ] && continue
  # only ingest when the agent has finished (marker written by caller) 
  [ -f /scratch/agents/$p/.done ] || continue
  touch $d/.ingested
  ( /verif/tools/confirm_mutant.sh $d ${p}_s$k $p > $d/confirm.log 2>&1; tail -1 $d/confirm.log ) &
done; done; wait
