#!/usr/bin/env python3
"""make_agent_tasks.py [PROP ...]  -  writes /scratch/agents/<PROP>/task.md for a round of
independent sub-agents: the property text (and nothing else from /verif), the one-line
descriptions of the changes already submitted for it (so that new ones differ), the output
protocol (outN/patch.diff, demo_test.go with a first line '// dir: <pkg dir>', notes.txt).
Afterwards: create the scratch worktrees (/tmp/mw_<PROP>, contract files deleted), start one
agent per task file, confirm with tools/confirm_mutant.sh (tools/ingest_agent_outputs.sh),
evaluate with tools/eval_seeded.sh, remove the worktrees."""
import json, os, glob, sys
props = [json.loads(l) for l in open('/verif/properties.jsonl')]
want = set(sys.argv[1:])
for p in props:
    i = p['id']
    if want and i not in want:
        continue
    d = '/scratch/agents/' + i
    for k in (1, 2):
        os.makedirs('%s/out%d' % (d, k), exist_ok=True)
    prev = ['- ' + open(m).read().strip().replace('\n', ' ')[:260] for m in sorted(glob.glob('/verif/seeded/%s_*/notes.txt' % i))]
    w = '/tmp/mw_' + i
    open(d + '/task.md', 'w').write(f"""# Task: seed two property-breaking changes into fatedier/frp

You are working in a scratch git worktree of the Go project fatedier/frp at **{w}** (work ONLY there; never touch /repo or /verif, and do not read anything under /verif).
Every shell call needs: `export GOFLAGS=-mod=mod GOPROXY=off GOSUMDB=off GOTOOLCHAIN=local` (no network). `cd` does not persist between shell calls.

## The property

**{p['title']}**

{p['statement']}

Quantified: {p['quantifier']['text']}

Why the existing tests cannot settle it: {p['why_tests_cant']}

Code the property is anchored in: {', '.join(p['anchors']['files'])}

## What to produce

TWO different, independent changes to non-test .go files, each of which (1) breaks the property, (2) still compiles and passes `go test -vet=off -count=1 ./pkg/...`, (3) is a realistic maintainer slip, (4) needs something specific to manifest (an interleaving, a fault at a particular point, a multi-step sequence, an unusual input, two cooperating sites), (5) is small and touches no file named zz_contracts_verif.go.
For each: an in-package Go test that FAILS (or panics / times out within 60 s) with the change and PASSES without; its first line is `// dir: <directory relative to the repo root>`.

Changes already submitted for this property - yours must differ from all of them:
{chr(10).join(prev)}

## Output

For change k in {{1,2}} write into {d}/out<k>/ : `patch.diff` (`git diff -- <your files>` with only change k applied), `demo_test.go`, `notes.txt` ("Change: ... Breaks: ... Needs: ...").
Verify each yourself (apply, build, unit tests pass, demo fails; revert your files, demo passes), remove the demo file and leave the worktree clean. Files named zz_contracts_verif.go and the directory verif/ appear as deleted in `git status`: intentional, do not restore them and never include them in a patch.
""")
print('tasks written under /scratch/agents')
