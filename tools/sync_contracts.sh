#!/bin/sh
# Copies the contract files (source of truth: /verif/contracts) into /repo and
# commits them there as a guarded, add-only change (build tag "verif").
set -e
cd /verif/contracts
find . -name '*.go' | while read f; do
  mkdir -p "/repo/$(dirname "$f")"
  cp "$f" "/repo/$f"
done
cd /repo
gofmt -l $(cd /verif/contracts && find . -name '*.go' | sed 's|^\./||') || true
git add $(cd /verif/contracts && find . -name '*.go' | sed 's|^\./||')
if ! git diff --cached --quiet; then
  git commit -q -m "verif: contracts and spec vocabulary (guarded by build tag verif)

Files named zz_contracts_verif.go and package verif/ carry //go:build verif;
they are not part of a normal build or test run." 
  git log --oneline | head -1
fi
