#!/bin/sh
# usage: try_mutant.sh <patch.diff> <prop> [<prop>...]   — applies the patch to /repo, runs the checks, undoes it
P="$1"; shift
R="${VERIF_REPO:-/repo}"
cd "$R" || exit 2
if ! git apply --check "$P" 2>/dev/null; then echo "PATCH DOES NOT APPLY: $P"; exit 3; fi
git apply "$P"
for prop in "$@"; do
  (cd /verif && VERIF_EVIDENCE_DIR=/verif/.work/mutant-evidence ./check $prop 2>&1 | grep -E "VIOLATION|BROKEN|obligations discharged|govc failed|load error" | cut -c1-300)
done
git checkout -- . 
git status --short | grep -v '^??' | head -3
