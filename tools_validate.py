import json,jsonschema,sys,glob
jsonschema.validate(json.load(open('/verif/MANIFEST.json')), json.load(open('/root/.vp/MANIFEST.schema.json')))
for f in glob.glob('/verif/evidence/*.json'):
    jsonschema.validate(json.load(open(f)), json.load(open('/root/.vp/EVIDENCE.schema.json')))
print('valid')
